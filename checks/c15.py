"""C15 - maintenance excludes sessions and loses no task under any interleaving.

proof: Properties_C15.v - inductive invariants of the interleaving semantics
       Dep/Sched.v over all schedules (lists of micro steps of any length) and
       all client scripts; the lock configuration of the model and the access
       annotations of the race-freedom theorem are the table regenerated from
       the clang AST of deployer.cc / service.cc (gen/lock_scopes.py).
tie:   translator + correspondence: every macro schedule with <= 2 (quick) /
       <= 3 (thorough) preemptions of generated client scripts (<= 6 calls) and
       every witness schedule of the model is replayed on the real library by
       the schedule controller (harness/c15, RIME_VERIF_YIELD hooks); the
       observation sequences must be equal.
search: the property's own oracles on the implementation's observations
       (exclusion, exactly-once, nothing lost, bracketing, no rethrow at join)
       and ThreadSanitizer on a free-running stress of the TSan flavour.
"""
import os
import random
import re
import sys
import threading
import time

import vlib

sys.path.insert(0, os.path.join(vlib.VERIF, "gen"))
import lock_scopes  # noqa: E402

LEVEL = "proof"

WINDOW_KEY = "exit-window:tasks-scheduled-while-worker-exiting-not-run"

MUTATION_DRILLS = [
    {"mutation": "deployer.cc NextTask(): std::lock_guard removed",
     "ran": "VERIF_REPO=/var/tmp/wt-c15 VERIF_CACHE=/var/tmp/rime-verif-c15 bin/check C15 quick (scratch worktree of /repo a1848ee)",
     "fired": "VIOLATION with failing input: ThreadSanitizer race:rime::Deployer::NextTask|rime::Deployer::ScheduleTask (9 reports in 5 s of "
              "stress); translator gives lk_next=0, table_ok false -> Properties_C15.v no longer checks"},
    {"mutation": "deployer.cc ScheduleTask(an<DeploymentTask>): std::lock_guard removed",
     "ran": "same", "fired": "VIOLATION with failing input: ThreadSanitizer race:rime::Deployer::NextTask|rime::Deployer::ScheduleTask; "
                             "lk_sched=0, table_ok false -> Properties_C15.v no longer checks"},
    {"mutation": "deployer.cc StartWork(): `maintenance_mode_ = maintenance_mode` moved after the std::async spawn",
     "ran": "same", "fired": "VIOLATION no-failing-input-found: table_shape_ok false (StartWork's statement order is not the one the model's "
                             "program and C15_maintenance_flag are proved for); the mutant is behaviourally equivalent for one client thread, "
                             "so no failing schedule exists at the hooks (0 mismatches, 0 TSan reports)"},
    {"mutation": "deployer.cc Run(): `while (HasPendingTasks())` replaced by `while (false)` (re-check removed)",
     "ran": "same", "fired": "VIOLATION with failing input lost:task-scheduled-before-last-result-not-run (SU:111 SU:111 J IM: task 5 scheduled "
                             "before the result notification is never run), found by the tolerant search after 11435 stuck / 275 differing "
                             "schedules; table_shape_ok false"},
    {"mutation": "deployer.cc Run(): message_sink_(\"deploy\", result) moved before the task loop ('success' sent before the tasks ran)",
     "ran": "same", "fired": "VIOLATION with failing input exec-after-last-result (5011 schedules) and lost:tasks-not-run-where-the-model-runs-them; "
                             "8162 differing schedules; table_shape_ok false"},
    {"mutation": "service.cc Notify(): copies notification_handler_ under mutex_, drops the lock, calls the copy (round-2 seeded change)",
     "ran": "same (scratch worktree of /repo 9d9d51b)",
     "fired": "VIOLATION with failing inputs from the blocked-setter probes: handler:invocation-overlaps-setter-return "
              "(1 SM:101 H0 C SU:110 SU:211 | ccccccwwwwwwwwwwwwwC: ret:H:0 observed between hin:0 and hout, 31 probes) and "
              "handler:replaced-handler-invoked (hin:1 after set_notification_handler call #2 returned, 17 probes); table_shape_ok false"},
    {"mutation": "deployer.cc Run(): drains the queue in batches (TakePendingTasks swaps the queue), try/catch around the whole batch "
                 "(round-2 seeded change)",
     "ran": "same",
     "fired": "VIOLATION with failing input lost:task-scheduled-before-start-not-run (1 SU:211 J IM | tccccccwwwwwwwwwwwwwwwwcc: task 0 "
              "throws, 'deploy failure', tasks 1 and 2 never run, join returns, is_maintenance_mode()=0; 310 schedules) and "
              "lost:task-scheduled-before-last-result-not-run, found by the tolerant search; table_shape_ok false"},
    {"mutation": "unfixed tree (/repo 6f9c578, before a1848ee): Set/ClearNotificationHandler without mutex_, Notify tests outside the lock",
     "ran": "bin/check C15 quick on /repo before the fix",
     "fired": "VIOLATION with failing inputs: ThreadSanitizer race:rime::Service::Notify|rime::Service::SetNotificationHandler, "
              "badcall:join-rethrows-bad_function_call (H1 SM:111 H0 J ... | cccccccwwcwccc, 13 enumerated schedules + witness), "
              "table_ok false"},
]

MUTATION_DRILLS += [
    {"mutation": "the hand-over before the repair (/repo c6a26de, i.e. 9f55844 reverted): StartWork tests IsWorking(), Run ends with "
                 "`while (HasPendingTasks())`, no running_",
     "ran": "VERIF_REPO=/var/tmp/wt-c15 (worktree at c6a26de) VERIF_CACHE=/var/tmp/rime-verif-c15 bin/check C15 quick, with the finding entry at status fixed",
     "fired": "VIOLATION with failing input exit-window:tasks-scheduled-while-worker-exiting-not-run (1 SU:111 SU:111 J IM | "
              "cccccccccwwwwwwwwwwwwwwwwwwwcwcc: sched:5 ret:SU:0 done ret:J:0 ret:IM:0 with task 5 never run; 45 schedules incl. the "
              "witnesses window_sync/window_start_maintenance and, by tolerant replay, the two corpus/C15 exit-window schedules); "
              "handover_fact = HFuture, Properties_C15.v fails at C15_table_recognised (Unable to unify HFlag with HFuture); 0 mismatches: "
              "the model follows the old hand-over"},
    {"mutation": "deployer.cc (on 4978e15): FinishWork() only returns pending_tasks_.empty() under the lock; `running_ = false` moved into "
                 "Run() after RIME_VERIF_RUN_RETURN in a critical section of its own (exit test and hand-over no longer atomic; compiles, "
                 "87 unit tests unaffected)",
     "ran": "same worktree at 4978e15 + the edit",
     "fired": "VIOLATION with failing input exit-window:tasks-scheduled-while-worker-exiting-not-run (same schedule, 45 schedules): the "
              "statement skeletons and the table are HUnrecognised, the model falls back to the old hand-over, whose window the mutant has; "
              "Properties_C15.v no longer checks"},
    {"mutation": "deployer.cc (on 4978e15): std::lock_guard removed from FinishWork()",
     "ran": "same worktree at 4978e15 + the edit",
     "fired": "VIOLATION no-failing-input-found: FinishWork's rows carry no lock -> handover_of_table and handover_fact HUnrecognised, "
              "table_shape_ok false, Properties_C15.v no longer checks; 305 stuck / 187 differing schedules (the library still follows the "
              "running_ protocol at the hooks while the model refuses to assume it); 3 s of TSan stress did not hit the race"},
]

CALLS = ["SM", "SU", "IM", "J", "C", "K", "G", "F", "D", "H1", "H0"]


def gen_script(rng):
    n = rng.randint(2, 6)
    out = []
    ncreate = 0
    for i in range(n):
        r = rng.random()
        if i == 0 and r < 0.55 or r < 0.22:
            op = rng.choice(["SM", "SU"])
        else:
            op = rng.choice(["IM", "J", "C", "C", "K", "G", "F", "D", "H1", "H0", "SU", "SM", "P"])
        if op in ("SM", "SU"):
            out.append("%s:%s" % (op, "".join(rng.choice("11102") for _ in range(3))))
        elif op == "P":
            out.append("P" + rng.choice("112"))
        elif op in ("K", "G", "F", "D"):
            out.append("%s%d" % (op, rng.randint(0, max(0, ncreate))))
        else:
            out.append(op)
            if op == "C":
                ncreate += 1
    return out


FIXED_SCRIPTS = [
    (1, ["SU:111", "SU:111", "J", "IM"]),
    (1, ["SM:111", "SM:101", "J", "IM"]),
    (1, ["SM:110", "IM", "C", "K0", "J", "C"]),
    (0, ["H1", "SM:111", "H0", "J", "H1", "IM"]),
    (1, ["C", "SU:101", "F0", "G0", "J", "F0"]),
    (1, ["C", "SM:111", "K0", "D0", "J", "G0"]),
    (1, ["SM:111", "J", "SM:011", "IM", "J", "IM"]),
    (0, ["SM:111", "H1", "IM", "H1", "J", "IM"]),
    # a throwing task followed by further tasks in the same round; a task scheduled from inside the result notification
    (1, ["SU:211", "J", "IM"]),
    (1, ["SM:121", "SU:211", "J", "IM"]),
    (1, ["P1", "SU:211", "IM", "J", "IM"]),
    (1, ["P2", "P1", "SM:112", "J", "IM"]),
    # set_notification_handler while the worker notifies (probes of the blocked setter come from these)
    (1, ["SU:111", "H1", "J", "IM"]),
    (0, ["H1", "SM:121", "H0", "H1", "J", "IM"]),
    (1, ["P1", "SU:111", "H1", "H1", "J"]),
]


# ---------------------------------------------------------------------------
# the property's own oracles, evaluated on an observation sequence of the REAL library
def oracles(h0, script, obs):
    """returns list of (key, what).  obs: list of observation tokens in global order."""
    bad = []
    handler_stable = h0 == 1 and not any(c in ("H0", "H1") for c in script)
    alive = False
    scheduled, executed = [], []
    sched_at_spawn = set()
    since_spawn = []
    nseq = []
    spawned_ever = False
    for i, e in enumerate(obs):
        if e == "spawn":
            alive, spawned_ever = True, True
            sched_at_spawn = set(scheduled)
            since_spawn = []
        elif e == "done":
            alive = False
            if handler_stable:
                last = [x for x in since_spawn if x.startswith("exec:") or x in ("notify:success", "notify:failure")]
                if last and last[-1].startswith("exec:"):
                    bad.append(("exec-after-last-result", "a task ran after the last result notification of its worker"))
                if nseq and nseq[-1] == "start":
                    bad.append(("bracket:start-without-result", "worker ended after 'start' without a result notification"))
        elif e == "cleanup":
            # RimeSyncUserData: every session is destroyed BEFORE the call schedules its tasks and starts its worker (theorem
            # C15_sync_user_data_cleans_first): a worker spawned by the call that is still in progress must not be running yet
            j = i - 1
            while j >= 0 and not obs[j].startswith("ret:"):
                if obs[j] == "spawn":
                    bad.append(("excl:sessions-destroyed-after-own-worker-started",
                                "sync_user_data destroyed the sessions after the maintenance thread it started was already running"))
                    break
                j -= 1
        elif e == "accept":
            if alive:
                bad.append(("excl:session-op-during-maintenance", "a session operation passed disabled() while the worker was running"))
        elif e.startswith("sched:"):
            scheduled.append(e[6:])
        elif e.startswith("exec:"):
            t = e[5:]
            if t in executed:
                bad.append(("twice:task-executed-twice", "task %s executed twice" % t))
            if t not in scheduled:
                bad.append(("exec-unscheduled", "task %s executed but never scheduled" % t))
            executed.append(t)
        elif e.startswith("notify:"):
            v = e[7:]
            if handler_stable:
                prev = nseq[-1] if nseq else None
                if v == "start" and prev == "start":
                    bad.append(("bracket:start-start", "two 'start' notifications without a result between"))
                if v != "start" and prev is None:
                    bad.append(("bracket:result-without-start", "result notification before any 'start'"))
            nseq.append(v)
        elif e == "jointhrow":
            bad.append(("badcall:join-rethrows-bad_function_call",
                        "join_maintenance_thread rethrew: Notify called an empty notification handler"))
        if e in ("ret:IM:0", "ret:J:0") and spawned_ever and not alive:
            # the service reports that maintenance is over
            lost_weak = [t for t in sched_at_spawn if t not in executed]
            if lost_weak:
                bad.append(("lost:task-scheduled-before-start-not-run",
                            "tasks %s scheduled before the worker started were not run when maintenance was reported over" % sorted(lost_weak)))
            lost = [t for t in scheduled if t not in executed and t not in sched_at_spawn]
            # a task scheduled BEFORE the worker's last result notification must have been seen by the
            # HasPendingTasks re-check; the exit window only exists after that notification
            early = [t for t in lost if any(x in ("notify:success", "notify:failure")
                                            for x in obs[obs.index("sched:" + t):i])]
            if early:
                bad.append(("lost:task-scheduled-before-last-result-not-run",
                            "tasks %s were scheduled before the worker sent its last result notification and were not run when "
                            "maintenance was reported over" % sorted(early, key=int)))
            lost = [t for t in lost if t not in early]
            if lost:
                bad.append((WINDOW_KEY, "tasks %s scheduled while the worker was exiting were not run when "
                                        "is_maintenance_mode()/join reported maintenance over" % sorted(lost, key=int)))
        since_spawn.append(e)
    # handler invocations versus set_notification_handler (the python twin of Sched.hstep)
    nset, inside = 0, False
    for e in obs:
        if e.startswith("hin:"):
            if inside:
                bad.append(("handler:overlapping-invocations", "a handler invocation began while another was in progress"))
            if int(e[4:]) != nset:
                bad.append(("handler:replaced-handler-invoked",
                            "the handler installed by set_notification_handler call #%s was invoked after call #%d had returned" % (e[4:], nset)))
            inside = True
        elif e == "hout":
            inside = False
        elif e == "ret:H:0":
            if inside:
                bad.append(("handler:invocation-overlaps-setter-return",
                            "set_notification_handler returned while an invocation of the handler it replaced was still in progress"))
            nset += 1
    seen, out = set(), []
    for k, w in bad:
        if k not in seen:
            seen.add(k)
            out.append((k, w))
    return out


def corpus_cases():
    """corpus/C15/*.txt: `<name> <h0> <call> ... | <schedule>` per line (# comments) -> [(name, h0, script, schedule)]"""
    d = os.path.join(vlib.VERIF, "corpus", "C15")
    out = []
    for f in sorted(os.listdir(d)) if os.path.isdir(d) else []:
        if not f.endswith(".txt"):
            continue
        for ln in open(os.path.join(d, f)):
            ln = ln.split("#")[0].split()
            if not ln:
                continue
            bar = ln.index("|")
            out.append(("corpus:" + ln[0], int(ln[1]), ln[2:bar], "".join(ln[bar + 1:])))
    return out


def tsan_reports(err):
    """[(key, text)] for ThreadSanitizer reports whose racing accesses are in librime's own code"""
    out, ignored = [], 0
    for rep in err.split("WARNING: ThreadSanitizer: ")[1:]:
        rep = rep.split("==================")[0]
        head = rep.split("\n")[0]
        stacks = re.split(r"\n\s*\n", rep)
        fns = []
        attributable = True
        for st in stacks[:2]:
            top = None
            for ln in st.split("\n"):
                m = re.match(r"\s*#\d+ (.*) (\S+) \(([^()]*)\)\s*$", ln)
                if not m:
                    continue
                fn, path, module = m.group(1), m.group(2), m.group(3)
                if "libtsan" in module or "sanitizer" in path:
                    continue
                top = (fn, path, module)
                break
            if top is None or not top[2].startswith("librime"):
                attributable = False
            m = re.search(r"#\d+ (rime::[\w:~]+)", st)
            fns.append(m.group(1) if m else "?")
        if not attributable or "data race" not in head:
            ignored += 1
            continue
        key = "race:" + "|".join(sorted(set(fns)))
        out.append((key, "\n".join(l[:240] for l in rep.split("\n") if "boost::" not in l and "std::__" not in l)[:3000]))
    return out, ignored


def run(ctx):
    timings = {}
    ctx.coverage["timings"] = timings
    t0 = time.time()
    table, fns = lock_scopes.generate()
    timings["translator_s"] = round(time.time() - t0, 1)
    ctx.coverage["translated_rows"] = len(table)
    ctx.coverage["translated_functions"] = len(fns)
    ctx.coverage["lock_scope_table"] = [
        {"fn": f, "var": v, "kind": k, "locks": list(l)} for f, v, k, l in table
        if v in ("Deployer::pending_tasks_", "Service::notification_handler_", "Deployer::maintenance_mode_", "Deployer::work_",
                 "Deployer::running_")]
    ctx.coverage["trusted_base"] = [
        "Coq 8.16.1 kernel + vm_compute (table checks, witness schedules); no native_compute",
        "translator gen/lock_scopes.py (clang -ast-dump=json of deployer.cc/service.cc -> access/lock-scope rows, AUnknown when unsure; "
        "statement skeletons of Deployer::Run/FinishWork/StartWork -> handover_fact, HUnrecognised unless exactly one of the two known shapes)",
        "Dep/Sched.v as a port of Deployer/Service/rime_api_impl.h: atomicity of the code between two RIME_VERIF_YIELD points that "
        "touches at most one shared member; std::future (ready strictly after the lambda returned; get() rethrows); std::mutex",
        "extraction: ExtrOcamlBasic only; ocaml/common/glue.ml + ocaml/c15/driver.ml are conversion glue",
        "harness/c15/c15.cc (schedule controller over the hooks of commits 6f9c578 and 4978e15; ASan+UBSan and TSan builds of /repo's working tree)",
    ]
    ctx.assumptions += [
        "one client thread (the property quantifies over sequences of client calls); several client threads calling the API concurrently are outside the model",
        "deployment tasks themselves are opaque (test tasks with scripted results); RunTask()'d synchronous tasks of start_maintenance are not modelled",
        "session-level notifications (Session -> Service::Notify on the client thread) are not modelled: on the harness workspace none is sent",
        "real scheduler explored up to the preemption bound at the instrumented cut points; ThreadSanitizer stress is support for race freedom, not its proof",
        "UserDictionary's recovery path StartWork(false) (non-maintenance worker) is outside the model",
    ]
    ctx.coverage["mutation_drills"] = MUTATION_DRILLS
    t0 = time.time()
    res = vlib.proof_stage(ctx)
    proof_ok = res["ok"]
    timings["proof_s"] = round(time.time() - t0, 1)
    t0 = time.time()

    okm, logm = vlib.coq_make(["Dep/Sched.vo", "Gen/LockScopes.vo"])
    if not okm:
        ctx.violation("model-does-not-compile", "Dep/Sched.v or the generated Gen/LockScopes.v does not compile",
                      {"log": logm[-4000:]}, found_input=False)
        return
    rmodel = vlib.ocaml_build("c15", "Extract_C15.v", os.path.join(vlib.VERIF, "ocaml", "c15", "driver.ml"))
    b = vlib.librime_build("asan")
    src = os.path.join(vlib.VERIF, "harness", "c15", "c15.cc")
    exe = vlib.cxx_build(os.path.join(vlib.WORK, "bin", "c15"), [src], flags="-I%s/src -pthread" % b,
                         libs="-L%s/lib -lrime -lglog -Wl,-rpath,%s/lib" % (b, b))

    timings["builds_s"] = round(time.time() - t0, 1)
    # --- cases from the model
    t0 = time.time()
    rc, out, err = vlib.sh2([rmodel], stdin="T\nW\n", timeout=120)
    tline = [l for l in out.split("\n") if l.startswith("T ")][0].split()
    cfg = dict(zip(["shape_ok", "lk_sched", "lk_next", "lk_hasp", "lk_set", "lk_clear", "lk_ntest", "lk_ncall"], map(int, tline[1:9])))
    cfg["handover_of_table"], cfg["handover_fact"] = tline[9], tline[10]
    ctx.coverage["model_config_from_table"] = cfg
    ctx.coverage["handover_skeletons"] = lock_scopes.handover_fact()[1]
    witnesses = []
    for l in out.split("\n"):
        if l.startswith("W "):
            f = l.split()
            bar = f.index("|")
            witnesses.append((f[1], int(f[2]), f[3:bar], f[bar + 1]))
    rng = random.Random(ctx.seed)
    k = 2 if ctx.tier == "quick" else 3
    nscripts = 140 if ctx.tier == "quick" else 420
    scripts = list(FIXED_SCRIPTS)
    seen = {(h, tuple(s)) for h, s in scripts}
    while len(scripts) < nscripts:
        s = gen_script(rng)
        h = 1 if rng.random() < 0.7 else 0
        if (h, tuple(s)) not in seen:
            seen.add((h, tuple(s)))
            scripts.append((h, s))
    # regression corpus (schedules that failed once): replayed like the witnesses
    corpus = corpus_cases()
    ctx.coverage["corpus_cases"] = [c[0] for c in corpus]
    witnesses += corpus
    req = "".join("E %d %d %s\n" % (k, h, " ".join(s)) for h, s in scripts)
    req += "".join("R %d %s | %s\n" % (h, " ".join(s), sch) for _, h, s, sch in witnesses)
    rc, out, err = vlib.sh2([rmodel], stdin=req, timeout=1200)
    if rc != 0:
        ctx.violation("model-runner-failed", "the extracted model runner failed", {"stderr": err[-3000:]}, found_input=False)
        return
    timings["model_enum_s"] = round(time.time() - t0, 1)
    lines = out.split("\n")
    cases = []   # (name, h0, script, schedule, model_obs)
    probes = []  # schedules ending in a client step the model refuses (blocked set_notification_handler)
    li = 0
    for h, s in scripts:
        while not lines[li].startswith("END"):
            l = lines[li]
            li += 1
            if l.startswith("S "):
                sch, _, ob = l[2:].partition(" | ")
                cases.append(("enum", h, s, sch.strip(), ob.strip()))
            elif l.startswith("B "):
                sch, _, ob = l[2:].partition(" | ")
                probes.append(("probe", h, s, sch.strip(), ob.strip()))
        li += 1
    refused_corpus = []
    for (name, h, s, sch) in witnesses:
        ob = lines[li].strip()
        li += 1
        if not ob.startswith("REFUSED"):
            cases.append(("witness:" + name, h, s, sch, ob))
        elif name.startswith("corpus:"):
            # the model built from the current table cannot follow a corpus schedule: the real library is taken along it
            # tolerantly and judged by the property's oracles alone
            refused_corpus.append(("witness:" + name, h, s, sch, ob))
        else:
            ctx.notes.append("witness %s is not a schedule of the model built from the current table (%s) - not replayed" % (name, ob))
    nprobe = 48 if ctx.tier == "quick" else 240
    if len(probes) > nprobe:
        probes = rng.sample(probes, nprobe)
    cases += probes
    work = ctx.scratch("c15")
    t_h = time.time()
    nproc = max(1, min(8, len(cases) // 200 + 1))
    chunks = [cases[i::nproc] for i in range(nproc)]
    results = [None] * nproc

    def run_chunk(i):
        feed = "".join("%d %s | %s\n" % (h, " ".join(s), sch) for _, h, s, sch, _ in chunks[i])
        results[i] = vlib.sh2([exe, ctx.scratch("c15-%d" % i)], stdin=feed, timeout=1500,
                              env={"ASAN_OPTIONS": "detect_leaks=0:abort_on_error=0", "UBSAN_OPTIONS": "print_stacktrace=1"})
    ths = [threading.Thread(target=run_chunk, args=(i,)) for i in range(nproc)]
    for t in ths:
        t.start()
    for t in ths:
        t.join()
    hl_by_case = {}
    for i in range(nproc):
        rc, hout, herr = results[i]
        hl = hout.split("\n")
        if hl and hl[-1] == "":
            hl = hl[:-1]
        if rc != 0 or len(hl) < len(chunks[i]):
            nxt = chunks[i][min(len(hl), len(chunks[i]) - 1)]
            ctx.violation("harness-abort", "the schedule-controller harness ended abnormally rc=%d after %d of %d cases" % (rc, len(hl), len(chunks[i])),
                          {"stderr": herr[-6000:], "next_case": "%d %s | %s" % (nxt[1], " ".join(nxt[2]), nxt[3]),
                           "cmd": "%s <workdir> < cases" % exe}, found_input=True)
        for c, ob in zip(chunks[i], hl):
            hl_by_case[id(c)] = ob
    cases = [c for c in cases if id(c) in hl_by_case]
    hl = [hl_by_case[id(c)] for c in cases]
    timings["harness_s"] = round(time.time() - t_h, 1)
    mism, stuck = [], []
    per_key = {}
    nontrivial = set()
    npre = {}
    for c, ob in zip(cases, hl):
        name, h, s, sch, mob = c
        ob = ob.strip()
        switches = sum(1 for a, b2 in zip(sch, sch[1:]) if a != b2)
        npre[switches] = npre.get(switches, 0) + 1
        if "w" in sch and "c" in sch[sch.index("w"):]:
            nontrivial.add((h, tuple(s), sch))
        if ob.startswith("STUCK"):
            stuck.append((c, ob))
            continue
        if name == "probe":
            # the model: the observations of the prefix, then the client's call must wait
            toks = ob.split()
            pre = mob.split()
            if toks[:len(pre)] != pre or len(toks) <= len(pre) or toks[len(pre)] != "blocked":
                mism.append((c, ob))
        elif ob != mob:
            mism.append((c, ob))
        for key, what in oracles(h, s, ob.split()):
            if key == WINDOW_KEY and ob != mob:
                # the known finding is the loss the faithful model exhibits; a loss the model does not predict is another defect
                key, what = "lost:tasks-not-run-where-the-model-runs-them", what + " (the model runs them along this schedule)"
            per_key.setdefault(key, []).append((c, ob, what))
    # --- failing-input search when the correspondence broke: follow the same schedules tolerantly
    # on the real library and evaluate the property's oracles on what it does
    searched = 0
    if stuck or mism or refused_corpus:
        pool = refused_corpus + [c for c, _ in (stuck + mism)][:4000]
        feed = "".join("%d %s | t%s\n" % (h, " ".join(s), sch) for _, h, s, sch, _ in pool)
        rc, sout, serr = vlib.sh2([exe, ctx.scratch("c15-search")], stdin=feed, timeout=900,
                                  env={"ASAN_OPTIONS": "detect_leaks=0:abort_on_error=0"})
        for c, ob in zip(pool, sout.split("\n")):
            searched += 1
            for key, what in oracles(c[1], c[2], ob.strip().split()):
                per_key.setdefault(key, []).append((("search:" + c[0], c[1], c[2], "t" + c[3], c[4]), ob.strip(), what))
    ctx.coverage["search_runs"] = searched
    ctx.coverage.update({
        "evaluations": len(cases), "scripts": len(scripts), "preemption_bound": k,
        "distinct_nontrivial": len(nontrivial),
        "rule": "every maximal macro schedule with <= %d preemptions (enumerated by the extracted model) of %d client scripts "
                "(8 fixed + PRNG seed %d, 2..6 calls over start_maintenance, sync_user_data, is_maintenance_mode, join, create_session, "
                "process_key, get_context, find_session, destroy_session, set_notification_handler on/off) plus the model's witness "
                "schedules; non-trivial = the client runs again after the worker has started running (a real interleaving)" % (k, len(scripts), ctx.seed),
        "schedules_by_context_switches": {str(a): n for a, n in sorted(npre.items())},
        "samples": [{"h0": c[1], "script": " ".join(c[2]), "schedule": c[3], "observations": c[4]} for c in cases[3:len(cases):max(1, len(cases) // 6)]][:8],
        "correspondence_mismatches": len(mism), "stuck": len(stuck),
        "oracle_hits": {k2: len(v) for k2, v in per_key.items()},
        "witnesses_replayed": [c[0] for c in cases if c[0].startswith("witness:")],
        "blocked_setter_probes": len(probes),
        "scripts_with_throwing_task": sum(1 for h, s in scripts if any("2" in c[2:] for c in s if c[:2] in ("SM", "SU"))),
        "scripts_with_handler_scheduled_task": sum(1 for h, s in scripts if any(c.startswith("P") for c in s)),
    })

    # --- ThreadSanitizer stress (support for race_free; the search for a racing input)
    tsan_hits, tsan_info = [], {}
    t0 = time.time()
    secs = 3 if ctx.tier == "quick" else 25
    try:
        bt = vlib.librime_build("tsan")
        texe = vlib.cxx_build(os.path.join(vlib.WORK, "bin", "c15_tsan"), [src], san=False,
                              flags="-fsanitize=thread -fno-omit-frame-pointer -I%s/src -pthread" % bt,
                              libs="-L%s/lib -lrime -lglog -Wl,-rpath,%s/lib" % (bt, bt))
        supp = os.path.join(work, "tsan.supp")
        open(supp, "w").write("race:tzset_internal\nrace:google::\ncalled_from_lib:libglog.so\n")
        for poll in (1, 0):
            w2 = ctx.scratch("c15-tsan%d" % poll)
            rc3, sout, serr = vlib.sh2([texe, w2, "--stress", str(secs if poll else max(2, secs // 3)), str(poll)], timeout=600,
                                       env={"TSAN_OPTIONS": "halt_on_error=0 report_signal_unsafe=0 suppressions=%s" % supp})
            reps, ignored = tsan_reports(serr)
            tsan_info["poll_handler=%d" % poll] = {"rc": rc3, "summary": sout.strip()[-600:], "reports": len(reps), "ignored_third_party_reports": ignored}
            tsan_hits += reps
            m = re.search(r"accepted_during_task=(\d+).*executed_twice=(\d+) executed_unknown=(\d+).*never_run=(\d+)", sout)
            if m and (int(m.group(1)) or int(m.group(2)) or int(m.group(3))):
                per_key.setdefault("stress-oracle", []).append((("stress", 1, [], "", ""), sout.strip(), "free-running stress: " + sout.strip()[-300:]))
            if rc3 not in (0, 66) and not reps:
                ctx.violation("stress-abort", "the free-running stress ended abnormally rc=%d" % rc3, {"stderr": serr[-4000:]}, found_input=True)
    except vlib.BuildError as e:
        ctx.violation("build-failure:tsan", "TSan flavour does not build", {"error": str(e)[-4000:]}, found_input=False)
    ctx.coverage["tsan_stress"] = tsan_info
    timings["tsan_s"] = round(time.time() - t0, 1)

    # --- verdicts
    found_any = False
    for key, hits in per_key.items():
        c, ob, what = hits[0]
        found_any = ctx.violation(key, what, {
            "h0": c[1], "script": " ".join(c[2]), "schedule": c[3], "observations_on_real_library": ob,
            "model_observations": c[4], "source": c[0], "occurrences": len(hits),
            "how": "echo '%d %s | %s' | %s <empty workdir>   (c = client runs to its next cut point, w = worker)" % (c[1], " ".join(c[2]), c[3], exe),
        }, found_input=True) or found_any
    seen = set()
    for key, text in tsan_hits:
        if key in seen:
            continue
        seen.add(key)
        found_any = ctx.violation(key, "ThreadSanitizer: data race in librime (%s)" % key[5:], {
            "report": text, "how": "%s <workdir> --stress %d 1   (TSan flavour; polls set_notification_handler/create_session during maintenance)" % (
                os.path.join(vlib.WORK, "bin", "c15_tsan"), secs)}, found_input=True) or found_any
    if stuck:
        c, ob = stuck[0]
        ctx.violation("correspondence:stuck", "a schedule of the model cannot be followed by the real library (a thread blocked or ended where the model says it runs)",
                      {"h0": c[1], "script": " ".join(c[2]), "schedule": c[3], "harness": ob, "model_observations": c[4], "count": len(stuck)},
                      found_input=False)
    if mism:
        c, ob = mism[0]
        ctx.violation("correspondence:c15", "model and implementation observe different things along the same schedule",
                      {"h0": c[1], "script": " ".join(c[2]), "schedule": c[3], "impl": ob, "model": c[4], "mismatches": len(mism)},
                      found_input=False)
    if not proof_ok:
        bad_rows = [r for r in ctx.coverage["lock_scope_table"] if (r["var"].endswith("notification_handler_") and not r["locks"])
                    or (r["var"].endswith("pending_tasks_") and not r["locks"] and r["fn"] != "Deployer::StartWork") or r["kind"] == "AUnknown"]
        ctx.violation("proof:Properties_C15", "a proof obligation of Properties_C15.v no longer checks (the table generated from the "
                      "current source does not satisfy table_shape_ok/table_ok, or a proof broke)",
                      {"failed": res["failed"], "forbidden": res.get("forbidden"), "model_config_from_table": cfg,
                       "unguarded_rows": bad_rows,
                       "log_tail": res["log"][-2500:] + ((res["props"] or {}).get("log", "")[-2500:])},
                      found_input=False)


MANIFEST = {
    "category": "proof",
    "technique": "Coq inductive invariants over an executable interleaving semantics (all schedules) whose lock configuration and access "
                 "annotations are regenerated from the clang AST + model-enumerated bounded-preemption schedules replayed on the real "
                 "library by a schedule controller over yield hooks + ThreadSanitizer stress",
    "text": "Properties_C15.v proves over ALL micro-step schedules and all client scripts of Dep/Sched.v (Deployer::Run cut at its "
            "hook points x the client's API calls): session operations are refused while the worker's future is not ready and accepted "
            "after; no session operation is in progress while a worker exists; every handler invocation is of the handler installed by "
            "the latest returned set_notification_handler call and no such call returns during an invocation (handler_excl); no task "
            "runs twice, none vanishes (tasks may return true/false or throw); EVERY task scheduled at any time has run when, at a call "
            "boundary of the client, IsWorking() is false - and already when the worker has cleared running_ "
            "(C15_every_task_runs_before_idle, C15_every_task_runs_when_worker_quits: the full statement, for the hand-over through "
            "running_ under Deployer::mutex_ of /repo 9f55844; inductive invariant, no bound); RimeSyncUserData destroys the "
            "sessions before it schedules its tasks and starts its worker - the session table is empty from the first step of the call "
            "to its return (C15_sync_user_data_cleans_first; the order is observable on the real code through the `cleanup` event of "
            "hook 074aebe); deploy "
            "notifications are (start result+)* complete whenever no worker exists; no two conflicting accesses of the generated "
            "lock-scope table are enabled together (race_free, including running_ and StartWork's now locked queue reads); the handler "
            "is never called empty. The model has both hand-over shapes, selected by the table and by the statement skeletons of "
            "Run/FinishWork/StartWork (clang AST; anything else is HUnrecognised): for the hand-over before the repair the full statement "
            "is proved FALSE (C15_every_task_runs_before_idle_refuted, worker exit window, finding 8 - fixed). "
            "Schedules with <=2/<=3 preemptions of generated scripts, all witnesses and the regression corpus (corpus/C15) are replayed on "
            "the real library; observations must be equal.",
    "note": "Trusted: Coq kernel + vm_compute; gen/lock_scopes.py; the port of deployer.cc/service.cc/rime_api_impl.h in Dep/Sched.v "
            "(atomicity between cut points, std::future/std::mutex semantics; the wait for the previous worker's future before a spawn is one "
            "blocking step); ExtrOcamlBasic + OCaml/C++ glue; the hooks of commits 6f9c578, 4978e15. "
            "No axioms (Print Assumptions: closed under the global context). One client thread; tasks opaque; real scheduler explored only "
            "up to the preemption bound at the hooks; TSan stress supports but does not prove race freedom.",
}
