"""C03 - what is committed is what was shown, and it is delivered exactly once.

proof:  Properties_C03.v over the Eng session model: commit_is_preview and select_covering_rest
        (statements about one call in ANY state), the side condition of the latter as an invariant of
        all reachable states, and exactly_once (queue refinement over all histories: every op but
        get_commit only appends to the pending commit text, get_commit hands out all of it);
tie:    translators gen/keymaps.py + gen/eng_facts.py and the line-by-line correspondence of the
        extracted model with the real session API on the synthetic schemas;
search: the property's three oracles evaluated on EVERY implementation observation, on the
        synthetic and on the stock schemas: (O1) commit_composition delivers the preview reported
        immediately before and stops composing; (O2) selecting a displayed candidate that covers the
        rest delivers / previews confirmed text + shown text; (O3) reads return everything committed
        since the previous read, once, in order; a second read returns nothing.
"""
import collections
import os
import random
import sys

import vlib

sys.path.insert(0, os.path.join(vlib.VERIF, "gen"))
import englib  # noqa: E402
import engpat  # noqa: E402
import eng_facts  # noqa: E402
import keymaps  # noqa: E402

LEVEL = "proof"

MUTATION_DRILLS = [
 {
  "mutation": "ShapeFormatter::Format without its option test (`if (!get_option(\"full_shape\")) return;` removed): the commit path widens printable ASCII whatever the option says",
  "ran": "scratch worktree /var/tmp/wt-c03 at /repo HEAD + the mutation; committed check from a snapshot worktree: VERIF_REPO=/var/tmp/wt-c03 VERIF_CACHE=<scratch> bin/check C03 quick",
  "exit": 1,
  "printed": "VIOLATION property=C03 replay=replays/C03-quick-0.json (found_failing_input=true): Eng/ShapeFacts.v no longer checks (shape_facts_recognised = false) and the search finds e.g. schema synth_fluid: delivered efbcb7, preview immediately before was 57; synth_express: delivered efbcb6, expected confirmed + shown 56",
 },
 {
  "mutation": "ShapeFormatter::Format: the all_of test reads `ch >= 0x7e` (a text of tildes only is kept narrow with full shape on) - behaviour changes only with the option on, i.e. outside the property's domain",
  "ran": "same",
  "exit": 1,
  "printed": "VIOLATION property=C03 replay=replays/C03-quick-0.json no-failing-input-found: key proof:Properties_C03 (Eng/ShapeFacts.v line 35: shape_facts_recognised is false - the translator refuses the statement it does not know); no history inside the domain fails, as it should be",
 },
 {
  "mutation": "Session::OnCommit: commit_text_ = commit_text (assigns instead of appending)",
  "ran": "scratch worktree /var/tmp/wt-eng at /repo HEAD + the mutation; VERIF_REPO=/var/tmp/wt-eng VERIF_CACHE=/var/tmp/rime-verif-eng bin/check C03 quick",
  "exit": 1,
  "printed": "VIOLATION property=C03 replay=replays/C03-quick-0.json",
  "violation_keys": [
   "lost-or-reordered:commit:stock",
   "lost-or-reordered:commit:synth",
   "lost-or-reordered:key:stock",
   "lost-or-reordered:key:synth",
   "lost-or-reordered:sel:stock",
   "lost-or-reordered:sel:synth",
   "lost-or-reordered:selp:stock",
   "lost-or-reordered:selp:synth"
  ]
 },
 {
  "mutation": "RimeGetCommit: the session->ResetCommitText() call removed",
  "ran": "scratch worktree /var/tmp/wt-eng at /repo HEAD + the mutation; VERIF_REPO=/var/tmp/wt-eng VERIF_CACHE=/var/tmp/rime-verif-eng bin/check C03 quick",
  "exit": 1,
  "printed": "VIOLATION property=C03 replay=replays/C03-quick-0.json",
  "violation_keys": [
   "read:getcommit:stock",
   "read:getcommit:synth"
  ]
 },
 {
  "mutation": "Composition::GetCommitText: the trailing `result += input_.substr(end)` removed (preview and commit change together, so the property's own oracle still holds; caught by the model correspondence)",
  "ran": "scratch worktree /var/tmp/wt-eng at /repo HEAD + the mutation; VERIF_REPO=/var/tmp/wt-eng VERIF_CACHE=/var/tmp/rime-verif-eng bin/check C03 quick",
  "exit": 1,
  "printed": "VIOLATION property=C03 replay=replays/C03-quick-0.json no-failing-input-found",
  "violation_keys": [
   "correspondence:synth"
  ]
 },
 {
  "mutation": "ConcreteEngine::OnSelect: seg.Close() removed (changes partial selections only, which the property does not constrain; caught by the model correspondence)",
  "ran": "scratch worktree /var/tmp/wt-eng at /repo HEAD + the mutation; VERIF_REPO=/var/tmp/wt-eng VERIF_CACHE=/var/tmp/rime-verif-eng bin/check C03 quick",
  "exit": 1,
  "printed": "VIOLATION property=C03 replay=replays/C03-quick-0.json no-failing-input-found",
  "violation_keys": [
   "correspondence:synth"
  ]
 },
 {
  "mutation": "ConcreteEngine::OnCommit: text = ctx->input() instead of ctx->GetCommitText()",
  "ran": "scratch worktree /var/tmp/wt-eng at /repo HEAD + the mutation; VERIF_REPO=/var/tmp/wt-eng VERIF_CACHE=/var/tmp/rime-verif-eng bin/check C03 quick",
  "exit": 1,
  "printed": "VIOLATION property=C03 replay=replays/C03-quick-0.json",
  "violation_keys": [
   "commit-is-not-preview:commit:synth",
   "select-covering-rest:auto-commit:sel:synth",
   "select-covering-rest:auto-commit:selp:synth"
  ]
 }
]

AUTO_COMMIT = {"synth_express": True, "synth_fluid": False, "synth_punct_express": True, "synth_punct_fluid": False, "synth_kb_express": True, "synth_kb_fluid": False, "synth_ascii_express": True, "synth_ascii_fluid": False, "luna_pinyin": True, "luna_pinyin_fluid": False,
               "cangjie5": True, "cangjie5_fluid": False}


def hx(h):
    return "" if h in ("-", "") else h


def oracle(schema, ops, lines, stats):
    """The property's own oracle on one history's observation lines.
    Returns (index, clause, detail) of the first failure or None."""
    prev = None
    auto = AUTO_COMMIT[schema]     # the editor's flavour sets _auto_commit at creation; a client may overwrite it with set_option
    for i, (op, line) in enumerate(zip(ops, lines)):
        d = englib.parse_obs(line)
        if "crash" in d:
            return None
        if op.startswith("opt _auto_commit "):
            auto = op.split()[2] == "1"
        if prev is None:
            prev = d
            if op != "getctx":
                # without a baseline nothing can be said about the first op except reads
                pass
            continue
        cb, ca = hx(prev["C"]), hx(d["C"])
        kind = op.split()[0]
        # ---- O3: exactly once, in order
        if kind == "getcommit":
            stats["reads"] += 1
            want = ("1:" + cb) if cb else "0"
            if d["ret"] != want or ca != "":
                return (i, "read", "get_commit returned %s with %s pending before; pending after: %s" % (d["ret"], cb or "-", ca or "-"))
            if cb:
                stats["reads_nonempty"] += 1
            if i >= 1 and ops[i - 1].split()[0] == "getcommit":
                stats["second_reads"] += 1
        else:
            if not ca.startswith(cb):
                return (i, "lost-or-reordered", "pending commit text %s is not an extension of %s" % (ca or "-", cb or "-"))
            if len(ca) > len(cb):
                stats["deliveries"] += 1
        # the property's own precondition: clauses O1 / O2 speak of sessions with full-shape conversion off (the flag as reported
        # right before the call: S = composing, ascii_mode, full_shape, ...); the stock key binder toggles it on Shift+space
        full_shape_on = len(prev.get("S", "")) > 2 and prev["S"][2] == "1"
        if full_shape_on and kind in ("commit", "sel", "selp"):
            stats["skipped_full_shape_on"] += 1
        # ---- O1: commit_composition = preview reported immediately before
        if kind == "commit" and not full_shape_on:
            stats["commits"] += 1
            if prev["c"] == "1":
                stats["commits_composing"] += 1
                if hx(prev["cf"]):
                    stats["commits_multi_segment"] += 1
            if ca != cb + hx(prev["V"]):
                return (i, "commit-is-not-preview", "delivered %s, preview immediately before was %s" % (ca[len(cb):] or "-", prev["V"]))
            if d["c"] != "0":
                return (i, "still-composing-after-commit", "is_composing after commit_composition")
            if d["ret"] != ("1" if ca else "0"):
                return (i, "commit-return", "commit_composition returned %s with pending text %s" % (d["ret"], ca or "-"))
        # ---- O2: selecting a displayed candidate that covers the rest
        if kind in ("sel", "selp") and prev["n"] > 0 and prev["ge"] != "-" and not full_shape_on:
            idx = int(op.split()[1])
            pos = idx if kind == "selp" else idx - prev["pg"] * prev["ps"]
            if 0 <= pos < prev["n"] and (kind == "sel" or idx < prev["ps"]):
                texts, ends = prev["T"].split(","), prev["E"].split(",")
                stats["selections_displayed"] += 1
                if d["ret"] != "1":
                    return (i, "select-displayed-failed", "selecting displayed candidate %d returned %s" % (pos, d["ret"]))
                if ends[pos] != "?" and min(int(ends[pos]), int(prev["ge"])) == len(englib.unhex(prev["I"])):
                    stats["selections_covering_rest"] += 1
                    want = hx(prev["cf"]) + hx(texts[pos])
                    if hx(prev["cf"]):
                        stats["covering_after_partial"] += 1
                    if auto:
                        if ca != cb + want or d["c"] != "0":
                            return (i, "select-covering-rest:auto-commit",
                                    "delivered %s (composing=%s), expected confirmed %s + shown %s" % (ca[len(cb):] or "-", d["c"], prev["cf"], texts[pos]))
                    else:
                        if ca != cb or hx(d["V"]) != want or d["c"] != "1":
                            return (i, "select-covering-rest:preview",
                                    "preview %s (composing=%s, delivered %s), expected confirmed %s + shown %s" % (d["V"], d["c"], ca[len(cb):] or "-", prev["cf"], texts[pos]))
        prev = d
    return None


def run(ctx):
    maps, handlers, ok_maps, log = keymaps.generate()
    guard, flat = eng_facts.generate()
    ctx.coverage["source_facts"] = {"delete_candidate_guard": guard, "keymaps_recognised": ok_maps}
    ctx.coverage["trusted_base"] = [
        "Coq 8.16.1 kernel + vm_compute (examples, key-map lookups); no native_compute",
        "translators gen/keymaps.py and gen/eng_facts.py (lexical extraction; refuse with ...Unrecognised)",
        "the Gallina port coq/Eng/*.v of Context/Composition/Segmentation/Menu/engine/processors/API/Session "
        "(validated by the correspondence, not proved against the C++)",
        "extraction: ExtrOcamlBasic only; ocaml/common/glue*.ml + ocaml/eng/driver.ml are parsing/printing glue",
        "harness/eng/session.cc + oracle_translator.h (sanitizer build of /repo's working tree); its fields C= (pending commit), "
        "E= (candidate ends), ge= and cf= (confirmed text) are read through the C++ classes",
    ]
    ctx.assumptions += [
        "the *_total variants of the exactly-once theorems assume the translator hypothesis cands_fit (each candidate ends inside its segment), proved for the synthetic oracle translator",
        "full_shape off (formatters are the identity) and the schema switcher not open, as the property states; generators never "
        "set full_shape and avoid the switcher hot keys; the oracle reads the full_shape flag reported before each call and does "
        "not judge calls made while it is on (skipped_full_shape_on in the distribution)",
        "exactly_once is stated for histories in which no modelled call reaches an undefined C++ operation (not_crash); C01's "
        "totality theorem discharges this hypothesis",
        "the theorems cover the modelled engine core (synthetic schemas, one translator, no filters); the stock schemas' other "
        "components (punctuator, affix segmentors, filters, script/table translators) are covered by the oracles on the implementation",
        "correspondence is differential testing on the generated histories; it validates model = code, it is not the proof",
    ]
    res = vlib.proof_stage(ctx)
    proof_ok = res["ok"]

    model = englib.build_model()
    impl = englib.build("asan")
    work = englib.prepare_workspaces(ctx.scratch("eng"), "asan", stock=True)

    rng = random.Random(ctx.seed * 15485863 + 3)
    quick = ctx.tier == "quick"
    n_synth, n_stock = (900, 220) if quick else (8000, 1600)

    def length():
        r = rng.random()
        return rng.randrange(4, 15) if r < 0.2 else (rng.randrange(15, 60) if r < 0.85 else rng.randrange(60, 140))

    fixed = [["getctx"] + ["key %d 0" % ord(c) for c in "abcd"] + ["sel 8", "getctx", "sel 1", "getcommit", "getcommit",
                                                                   "commit", "getcommit", "getcommit"],
             ["getctx"] + ["key %d 0" % ord(c) for c in "abcdef"] + ["selp 0", "key 65288 0", "key 65430 0", "sel 9", "commit",
                                                                     "key 103 0", "key 32 0", "getcommit"]]
    synth = [(s, f) for s in englib.SYNTH for f in fixed] + \
            [(englib.SYNTH[i % 2], englib.gen_commit_history(rng, length())) for i in range(n_synth)]
    stock = [(s, f) for s in englib.STOCK for f in fixed] + \
            [(englib.STOCK[i % 4], englib.gen_commit_history(rng, length(), stock=True)) for i in range(n_stock)]

    # round 3: input that passes an affix_segmentor / recognizer pattern (phony prefix and suffix segments); the schema
    # switcher opened in mid-composition; fully converted compositions kept by _auto_commit off
    n_pat = 120 if quick else 900
    stock += [(englib.STOCK[i % 4], engpat.gen_affix_history(rng, englib.STOCK[i % 4])) for i in range(n_pat)]
    stock += [(englib.STOCK[i % 4], engpat.gen_no_autocommit_history(rng)) for i in range(n_pat // 3)]
    synth += [(englib.SYNTH[i % 2], engpat.gen_no_autocommit_history(rng)) for i in range(n_pat // 3)]
    # round 3: punctuation keys on the synth_punct_* schemas (commit / pair / unique shapes commit through the punctuator;
    # merged menus of punct_translator and the oracle translator); model diff + the three oracles as on the other schemas
    n_punct = 250 if quick else 2500
    synth += [(englib.SYNTH_PUNCT[i % 2], englib.gen_punct_history(rng, length(), full_shape=False)) for i in range(n_punct)]
    synth += [(englib.SYNTH_PUNCT[i % 2], englib.gen_commit_history(rng, length())) for i in range(n_punct // 2)]
    synth += [(englib.SYNTH_KB[i % 2], englib.gen_kb_history(rng, length(), full_shape=False)) for i in range(n_punct)]
    synth += [(englib.SYNTH_KB[i % 2], englib.gen_commit_history(rng, length())) for i in range(n_punct // 2)]
    # round 4: ascii_composer / ascii_segmentor in the chains (mode-switch styles commit_text / commit_code deliver text on their own)
    synth += [(englib.SYNTH_ASCII[i % 2], englib.gen_ascii_history(rng, length(), full_shape=False)) for i in range(n_punct)]
    synth += [(englib.SYNTH_ASCII[i % 2], englib.gen_commit_history(rng, length())) for i in range(n_punct // 2)]
    stock += [(englib.STOCK[i % 4], englib.gen_ascii_history(rng, length(), full_shape=False, stock=True)) for i in range(n_punct // 2)]
    ctx.coverage["punct_histories"] = {"punct_keys": n_punct, "commit_histories_on_punct_schemas": n_punct // 2,
                                       "key_binder": n_punct, "commit_histories_on_key_binder_schemas": n_punct // 2,
                                       "ascii_composer": n_punct, "commit_histories_on_ascii_schemas": n_punct // 2,
                                       "ascii_composer_on_stock_schemas": n_punct // 2}
    ctx.coverage["pattern_histories"] = {"affix_phony_segments": n_pat, "no_auto_commit": 2 * (n_pat // 3)}

    # round 6: compositions of many segments of alternating kinds (phrase / punctuation): every segment is a record of its
    # own wherever the code keeps per-segment records (the commit history holds 20), so the three text paths are compared
    # on compositions beyond any such bound; typed through set_input (one composition) and through keys
    def many(schema, n, by_keys):
        unit = (["ni,", "hao."] if schema.startswith("luna") else ["a,", "hq.", "jd,"]) if schema in englib.STOCK else ["ab,", "c.", "d;"]
        text = "".join(unit[j % len(unit)] for j in range(n))
        typed = ["key %d 0" % ord(c) for c in text] if by_keys else ["input " + text.encode().hex()]
        return ["getctx"] + typed + ["getctx", "commit", "getcommit", "getcommit"]
    n_many = (8, 11, 12, 14, 23) if quick else tuple(range(2, 40))
    stock += [(s, many(s, n, bk)) for s in ("luna_pinyin_fluid", "cangjie5_fluid") for n in n_many for bk in (False, True)]
    synth += [(s, many(s, n, bk)) for s in englib.SYNTH_PUNCT for n in n_many for bk in (False, True)]
    ctx.coverage["many_segment_compositions"] = {"segments": [2 * n for n in n_many], "schemas": 4, "typed": ["set_input", "keys"]}

    stats = collections.Counter()
    fails, mism, aborts, samples = {}, [], [], []
    for kind, hs in (("synth", synth), ("stock", stock)):
        outs, crashes = englib.run_impl_resilient(impl, work, kind, hs, tag="c03", max_crashes=4)
        mo = englib.run_model(model, hs, dlog=True)[0] if kind == "synth" else None
        for h, (schema, ops) in enumerate(hs):
            o = outs[h]
            if o is None:
                continue
            stats["histories_" + kind] += 1
            stats["evaluations"] += len(o[1])
            f = oracle(schema, ops, o[1], stats)
            if f:
                i, clause, detail = f
                k = "%s:%s:%s" % (clause, ops[i].split()[0], kind)
                if k not in fails:
                    fails[k] = dict(kind=kind, schema=schema, ops=ops[:i + 1], detail=detail, clause=clause)
            if mo is not None:
                dpos = englib.first_diff(o[1], mo[h][1])
                if dpos is not None:
                    mism.append((schema, ops, dpos, o[1][dpos] if dpos < len(o[1]) else None,
                                 mo[h][1][dpos] if dpos < len(mo[h][1]) else None))
            if len(samples) < 6 and h % 61 == 5 and o[1]:
                samples.append({"schema": schema, "ops": ops[-3:], "last_observation": o[1][-1][:220]})
        for idx, rc, err in crashes:
            aborts.append(dict(kind=kind, schema=hs[idx][0], ops=hs[idx][1], rc=rc, err=err))

    def fails_oracle(f):
        def pred(ops):
            if ops[0] != "getctx":
                ops = ["getctx"] + ops
            o, rc, err = englib.run_impl(impl, work, f["kind"], [(f["schema"], ops)], tag="c03s")
            lines = o[0][1] if o else []
            if rc != 0:
                return False
            r = oracle(f["schema"], ops, lines, collections.Counter())
            return r is not None and r[1] == f["clause"]
        return pred

    for k, f in sorted(fails.items()):
        small = englib.shrink(f["ops"], fails_oracle(f), budget=50 if quick else 160)
        if small[0] != "getctx":
            small = ["getctx"] + small
        o, rc, err = englib.run_impl(impl, work, f["kind"], [(f["schema"], small)], tag="c03r")
        lines = o[0][1] if o else []
        r = oracle(f["schema"], small, lines, collections.Counter())
        ctx.violation(k, "schema %s: %s" % (f["schema"], (r[2] if r else f["detail"])),
                      {"schema": f["schema"], "history": small, "observations": lines[-4:], "first_seen": f["detail"],
                       "how": "write 'schema %s' + the history lines to a file F; run %s <scratch> %s F and compare the fields "
                              "C= (pending commit text), V= (commit preview), cf= (confirmed text), T=/E= (shown candidates and "
                              "their ends) of the last two observation lines" % (f["schema"], impl, f["kind"])}, found_input=True)
    seen = set()
    for a in aborts:
        k = "abort:%s" % a["schema"]
        if k in seen:
            continue
        seen.add(k)
        ctx.violation(k, "the session harness ended abnormally (sanitizer report or crash) on schema %s" % a["schema"],
                      {"schema": a["schema"], "history": a["ops"], "stderr": a["err"][-2500:]}, found_input=True)
    if mism and not fails and not aborts:
        schema, ops, dpos, x, y = mism[0]

        def differs(o2):
            io, rc, err = englib.run_impl(impl, work, "synth", [(schema, o2)], tag="c03d")
            mo2, _, _ = englib.run_model(model, [(schema, o2)], dlog=True)
            return bool(io) and englib.first_diff(io[0][1], mo2[0][1]) is not None
        small = englib.shrink(ops[:dpos + 1], differs, budget=60)
        ctx.violation("correspondence:synth", "the extracted model and the implementation disagree on an observation",
                      {"schema": schema, "history": small, "first_seen": {"op_index": dpos, "impl": x, "model": y},
                       "mismatching_histories": len(mism)}, found_input=False)
    if not proof_ok and not fails and not aborts:
        ctx.violation("proof:Properties_C03", "a proof obligation of Properties_C03.v no longer checks",
                      {"failed": res["failed"], "forbidden": res.get("forbidden"),
                       "log_tail": res["log"][-3000:] + ((res["props"] or {}).get("log", "")[-3000:])}, found_input=False)
    ctx.coverage.update({
        "evaluations": stats["evaluations"],
        "distinct_nontrivial": stats["commits_multi_segment"] + stats["selections_covering_rest"] + stats["reads_nonempty"],
        "rule": "an evaluation = one observation on which the three oracles are evaluated against the previous one; non-trivial = "
                "a commit_composition on a composition with confirmed earlier segments, a selection of a displayed candidate "
                "that covers the rest of the input, or a get_commit that returns text",
        "samples": samples, "distribution": dict(stats), "schemas": englib.SYNTH + englib.STOCK,
        "correspondence_mismatches": len(mism), "oracle_failures_on_impl": len(fails), "aborts": len(aborts),
        "exhaustive": False, "mutation_drills": MUTATION_DRILLS,
    })


MANIFEST = {
    "category": "proof",
    "technique": "Coq theorems over the session-engine model (one-call statements for arbitrary states + queue refinement over all "
                 "histories) + extracted-model/API correspondence + the property's oracles evaluated on every implementation "
                 "observation",
    "text": "Properties_C03.v proves over the Eng model, for any configuration and any translator: (1) with full_shape off, in ANY "
            "state commit_composition appends exactly the commit preview get_context reported immediately before, leaves the session "
            "not composing and returns whether text is pending (commit_is_preview; in any state, option on or off, what is delivered is "
            "ShapeFormatter::Format of that preview, and the model's formatter equals the statements of shape.cc as the translator reads "
            "them, on all 256 byte values: commit_any_shape, shape_model_is_source); (2) selecting a candidate that covers the rest of "
            "the input (after Segment::Close the segment ends at |input|) makes the text to commit the text of the earlier segments "
            "followed by the candidate's text - delivered at once and composition ended under _auto_commit, otherwise reported as the "
            "new preview (select_covering_rest; its side condition |composition input| <= |input| is proved for every reachable state); "
            "(3) every operation but get_commit only appends to the pending commit text, get_commit returns all of it and empties it, "
            "an immediate second read returns nothing, and over any history the concatenation of all reads plus the unread remainder "
            "equals the concatenation of the deliveries in order (exactly_once, induction over the history, no bound).  The extracted "
            "model is diffed observation by observation against the real API on two synthetic schemas, and the three oracles are "
            "evaluated on every observation of the implementation on the synthetic schemas, luna_pinyin and cangjie5 (both editors).",
    "note": "Closed under the global context (no axioms). Trusted: Coq kernel + vm_compute; gen/keymaps.py, gen/eng_facts.py; the "
            "Gallina port of the engine (validated by differential testing); ExtrOcamlBasic extraction and the OCaml/C++ glue. "
            "exactly_once assumes no modelled call reached an undefined C++ operation (C01_core_total). The stock schemas' extra "
            "components are covered by the oracles on the implementation only.",
}
