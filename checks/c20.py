"""C20 - strings copied into caller buffers are bounded and terminated.

proof: Properties_C20.v over the copy sites regenerated from the clang AST;
tie:   translator (gen/copy_sites.py) + byte-for-byte correspondence of the
       extracted model with the real API on a (length x size) grid;
search: the property's own oracle (copy_postb, extracted) on the
       implementation's memory.
"""
import os
import sys

import vlib

sys.path.insert(0, os.path.join(vlib.VERIF, "gen"))
import copy_sites  # noqa: E402

LEVEL = "proof"


def run(ctx):
    sites = copy_sites.generate()
    names = [s[0] for s in sites]
    ctx.coverage["translated_sites"] = [{"site": n, "program": p, "line": l} for n, p, l in sites]
    ctx.coverage["trusted_base"] = [
        "Coq 8.16.1 kernel + vm_compute (sweep over the generated site list); no native_compute",
        "translator gen/copy_sites.py (clang -ast-dump=json of src/rime_api.cc -> stmt programs; refuses with Unrecognised)",
        "extraction: ExtrOcamlBasic only, no Extract Constant / extra Extract Inductive; ocaml/common/glue*.ml + ocaml/c20/driver.ml are conversion glue",
        "C semantics of strncpy/memcpy/snprintf/array store as written in Buf/CopyModel.v (exec_stmt)",
        "harness/c20/c20.cc (ASan+UBSan build of /repo's working tree) for the correspondence",
    ]
    ctx.assumptions += [
        "the source string of each site is a NUL-free C string (std::string::c_str of a value without embedded NUL)",
        "correspondence is differential testing on the explored grid; it validates model = code, it is not the proof",
    ]
    res = vlib.proof_stage(ctx)
    proof_ok = res["ok"]

    # --- correspondence + search (run even when the proof broke: that is where the failing input comes from)
    okm, logm = vlib.coq_make(["Gen/CopySites.vo", "Base/Bytes.vo", "Buf/CopyModel.vo"])
    if not okm:
        ctx.violation("model-does-not-compile", "Buf/CopyModel.v or the generated Gen/CopySites.v does not compile",
                      {"log": logm[-4000:]}, found_input=False)
        return
    rmodel = vlib.ocaml_build("c20", "Extract_C20.v", os.path.join(vlib.VERIF, "ocaml", "c20", "driver.ml"))
    b = vlib.librime_build("asan")
    exe = vlib.cxx_build(os.path.join(vlib.WORK, "bin", "c20"), [os.path.join(vlib.VERIF, "harness", "c20", "c20.cc")],
                         flags="-I%s/src" % b, libs="-L%s/lib -lrime -Wl,-rpath,%s/lib" % (b, b))
    maxlen, maxsize = (40, 48) if ctx.tier == "quick" else (300, 320)
    work = ctx.scratch("c20")
    rc, out, err = vlib.sh2([exe, work, str(maxlen), str(maxsize)], timeout=1500,
                            env={"ASAN_OPTIONS": "detect_leaks=0:abort_on_error=0", "UBSAN_OPTIONS": "print_stacktrace=1"})
    lines = [l for l in out.split("\n") if l.strip()]
    if rc != 0:
        key = "harness-abort"
        ctx.violation(key, "the API harness ended abnormally (sanitizer report or crash) rc=%d" % rc,
                      {"cmd": "%s <workdir> %d %d" % (exe, maxlen, maxsize), "stderr": err[-6000:], "last_complete_case": [l for l in lines if len(l.split()) >= 5][-1:],
                       "sanitizer_summary": [l for l in err.split("\n") if "SUMMARY" in l or "ERROR: AddressSanitizer" in l or "runtime error" in l][:3]},
                      found_input=True)
    cases, feed = [], []
    nocopy = 0
    for l in lines:
        f = l.split()
        if f[-1] == "nocopy":
            nocopy += 1
            continue
        front = False
        while f and f[-1] in ("FRONTGUARD", "FARGUARD"):     # bytes outside the printed region changed
            front = True
            f = f[:-1]
        if len(f) != 5:
            continue       # a line cut short by an abort of the harness (reported above as harness-abort)
        site, n, src, before, after = f
        if site not in names:
            ctx.violation("unknown-site:" + site, "harness site not found by the translator", {"site": site}, found_input=False)
            continue
        cases.append((site, int(n), src, before, after, front))
        feed.append("%d %s %s %s %s" % (names.index(site), n, src, before, after))
    rc2, mout, merr = vlib.sh2([rmodel], stdin="\n".join(feed) + "\n", timeout=900)
    mlines = mout.split("\n")
    mism, bad = [], []
    per_site = {}
    for c, ml in zip(cases, mlines):
        mf = ml.split()
        site, n, src, before, after, front = c
        st = per_site.setdefault(site, {"cases": 0, "truncating": 0, "oracle_fail": 0, "model_diff": 0})
        st["cases"] += 1
        srclen = 0 if src == "-" else len(src) // 2
        if srclen >= n:
            st["truncating"] += 1
        if len(mf) != 3:
            mism.append((c, ml))
            continue
        if mf[0] != after:
            st["model_diff"] += 1
            mism.append((c, mf[0]))
        if mf[1] != "1" or front:
            st["oracle_fail"] += 1
            bad.append(c)
    ctx.coverage.update({
        "evaluations": len(cases), "nocopy_cases": nocopy,
        "distinct_nontrivial": len({(c[0], c[1], c[2]) for c in cases if (0 if c[2] == "-" else len(c[2]) // 2) >= c[1] - 1}),
        "rule": "grid: every copy site x string lengths 0..%d x buffer sizes 1..%d (directory getters: 4 path lengths; "
                "schema ids: 3 lengths), values ending in LF / CR LF and UTF-8 values cut inside a character; each case with a patterned buffer and with a buffer that already holds the first n bytes of the value unterminated; 8 guard bytes each side (compared with the model) + 640 far bytes behind (must stay untouched); non-trivial = the string does not fit with room to spare "
                "(len >= n-1), i.e. truncation or exact fit" % (maxlen, maxsize),
        "samples": [{"site": c[0], "n": c[1], "src_hex": c[2], "memory_after": c[4]} for c in cases[5:400:97]],
        "per_site": per_site, "exhaustive": False,
        "correspondence_mismatches": len(mism), "oracle_failures_on_impl": len(bad),
    })
    # --- verdicts
    seen = set()
    for c in bad:
        site, n, src, before, after, front = c
        srclen = 0 if src == "-" else len(src) // 2
        cls = "guard-overwritten" if (front or after[2 * n:] != before[2 * n:]) else (
            "unterminated-when-len>=size" if srclen >= n else "wrong-content")
        key = "%s:%s" % (site, cls)
        if key in seen:
            continue
        seen.add(key)
        ctx.violation(key, "%s leaves the caller buffer %s (len=%d, buffer_size=%d)" % (site, cls, srclen, n),
                      {"site": site, "string_hex": src, "buffer_size": n, "memory_before": before, "memory_after": after,
                       "how": "call the API function with a buffer of buffer_size bytes while the stored string is string_hex; "
                              "the buffer holds no NUL within buffer_size bytes / differs from the truncated string",
                       "cmd": "bin/check C20 quick"}, found_input=True)
    if not proof_ok and not bad:
        ctx.violation("proof:Properties_C20", "a proof obligation of Properties_C20.v no longer checks",
                      {"failed": res["failed"], "forbidden": res.get("forbidden"),
                       "unrecognised_sites": [n for n, p, l in sites if "Unrecognised" in " ".join(p) or "SzUnknown" in " ".join(p)],
                       "log_tail": res["log"][-3000:] + ((res["props"] or {}).get("log", "")[-3000:])}, found_input=False)
    if mism and not bad:
        c, m = mism[0]
        ctx.violation("correspondence:c20", "model and implementation disagree on the bytes written",
                      {"site": c[0], "n": c[1], "src_hex": c[2], "before": c[3], "impl_after": c[4], "model_after": m,
                       "mismatches": len(mism)}, found_input=False)

MANIFEST = {
    "category": "proof",
    "technique": "Coq theorem over copy-site programs regenerated from the clang AST (translator) + extracted-model/API byte-for-byte correspondence",
    "text": "Properties_C20.v proves, for every copy site the translator finds in src/rime_api.cc and for all strings, all sizes >= 1 "
            "and all caller memories, that the site's statement sequence writes nothing at or beyond buffer_size and leaves the string "
            "truncated to buffer_size-1 bytes followed by NUL (idiom_ok_sound, unbounded in length and size; the per-site step is a "
            "vm_compute sweep over the generated finite list).  The sites are re-translated from the current source on every run and the "
            "extracted model is diffed byte-for-byte against the real API on a (length x size) grid with guard bytes.",
    "note": "Trusted: Coq kernel + vm_compute; gen/copy_sites.py (clang JSON AST -> stmt list, refuses with Unrecognised); the C semantics "
            "of strncpy/memcpy/snprintf written in Buf/CopyModel.v; ExtrOcamlBasic extraction and the OCaml/C++ glue. Strings are assumed "
            "NUL-free C strings. The correspondence is testing and only validates the model.",
}
