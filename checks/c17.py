"""C17 - user dictionary sync merges without loss and snapshots round-trip.

proof : Properties_C17.v (merge keeps keys / magnitude = max / tick = max / idempotent /
        backup->restore round trip / import semantics / no read of an uninitialised member),
        tied to the current source by gen/udb_inits.py (Gen/Inits.v);
tie   : the extracted model (ocaml/c17) is driven with the same generated dictionaries and
        operation sequences as the real UserDbMerger / UserDbImporter / UserDbHelper /
        UserDictManager on LevelDB directories (harness/c17, ASan+UBSan build of /repo's
        working tree); (key, commits, tick) dumps, metadata, return values and the written
        snapshot/export files are diffed after every operation;
search: the property's own oracle (no key lost, magnitude = max, tick = max, idempotence,
        round trip) is evaluated on the implementation's dumps alone; after EVERY backup /
        sync / direct backup of a history the harness restores the snapshot just written into a
        fresh empty dictionary (B lines) and the oracle compares keys and commit counts with
        the dictionary that was backed up; a memcheck run of the
        same harness supports the "reads no uninitialised state" clause.
"""
import hashlib
import os
import random
import re
import sys

import vlib

sys.path.insert(0, os.path.join(vlib.VERIF, "gen"))
import udb_inits  # noqa: E402

LEVEL = "proof"
INT_MIN = -2 ** 31
INT_MAX = 2 ** 31 - 1

MUTATION_DRILLS = [
    # run 2026-09-29 in a scratch worktree of /repo (HEAD 24599a7), each with
    #   VERIF_REPO=/var/tmp/wt-c17 VERIF_CACHE=/var/tmp/rime-verif-c17 bin/check C17 quick
    # every mutant compiles and passes the unedited test suite (ctest: 87 tests); worktree removed afterwards
    {"id": "M1", "mutation": "user_db.cc UserDbMerger::Put: `std::abs(o.commits) < std::abs(v.commits)` -> `>` (keep the smaller magnitude)",
     "tests_pass": True, "detected": True,
     "fired": "VIOLATION with failing input: magnitude-not-max / magnitude-lowered after `merge 0 1`, `restore 0 1`, `sync`; roundtrip-differs (boundary case b0 ff.)"},
    {"id": "M2", "mutation": "user_db.cc CloseMerge: the `db_->MetaUpdate(\"/tick\", ...)` line removed",
     "tests_pass": True, "detected": True, "fired": "VIOLATION with failing input: tick-not-max after merge / restore / sync (boundary case b0, op 0)"},
    {"id": "M3", "mutation": "tsv.cc TsvReader: `trim_right(line)` -> `trim(line)` (a code with a leading blank loses it)",
     "tests_pass": True, "detected": True, "fired": "VIOLATION with failing input: key-lost-theirs after restore/sync, magnitude-not-max (random cases with code ' y ')"},
    {"id": "M4", "mutation": "user_db.cc userdb_entry_formatter: `if (UserDbValue(value).commits < 0) return false;` (snapshots skip deleted entries)",
     "tests_pass": True, "detected": True, "fired": "VIOLATION with failing input: key-lost-theirs after restore, roundtrip-differs (boundary case b71), magnitude-not-max after sync"},
    {"id": "M6", "mutation": "user_db.cc UserDbMerger::Put: `o.tick = max_tick_` -> `o.tick = v.tick`",
     "tests_pass": True, "detected": True,
     "fired": "VIOLATION no-failing-input-found: correspondence:c17 (entry ticks differ from the model; no clause of the property's oracle is about entry ticks)"},
    {"id": "M7", "mutation": "level_db.cc LevelDb::QueryAll: `Jump(\" \")` -> `Jump(\"b\")` (the cursor skips keys below 'b')",
     "tests_pass": True, "detected": True, "fired": "VIOLATION with failing input: magnitude-not-max after `merge 0 1` (b0), key-lost-theirs, roundtrip-differs (b71)"},
    {"id": "M8", "mutation": "user_db.h: `int merged_entries_ = 0;` -> `int merged_entries_;` (the repaired defect put back)",
     "tests_pass": True, "detected": True,
     "fired": "translator reports NotInitialised, C17_ctor_initialises_merged_entries fails; VIOLATION with failing input: tick-not-max:uninit-storage "
              "(case b73: one-entry merge, storage pre-filled with -1) and memcheck:uninitialised-read (Source::Dump, CloseMerge)"},
    {"id": "M11", "mutation": "tsv.cc TsvReader::operator(): `int num_entries = 0;` -> `int num_entries;` (translator-level run only: "
                                "VERIF_REPO=<worktree> python3 gen/udb_inits.py)",
     "tests_pass": None, "detected": True,
     "fired": "Gen/Inits.v: uninitialised_locals = [(operator(), num_entries)], all_read_members_initialised = false, so C17_members_initialised no longer checks"},
    {"id": "M12", "mutation": "user_db.cc UserDbHelper::UniformBackup: skip writing when the snapshot file exists with the same metadata "
                                "(/db_name, /db_type, /rime_version, /tick, /user_id) and the same number of records (re-implementation of the "
                                "round-2 seeded change; 2026-09-29, scratch worktree of /repo HEAD, quick tier)",
     "tests_pass": True, "detected": True,
     "fired": "VIOLATION with failing input: backup-roundtrip-differs:backup (boundary case b79: backup 0; merge 0 1 with an equal-tick "
              "dictionary raising a 3->9 and b -2->-6; backup 0 to the same path; the harness restores the written snapshot into a fresh "
              "dictionary: a=3, b=-2 where a=9, b=-6 were backed up); also backup-roundtrip-differs:sync (b80), magnitude-not-max / "
              "roundtrip-differs after later restores of the stale snapshot (r2, r6)"},
    {"id": "M10", "mutation": "tsv.cc TsvWriter: metadata lines written as `#@key value` (blank instead of TAB)",
     "tests_pass": True, "detected": True, "fired": "VIOLATION with failing input: tick-not-max, key-lost-theirs, magnitude-not-max after sync (restore of such a snapshot fails)"},
]


# ---------------------------------------------------------------------------
# generators
# ---------------------------------------------------------------------------

CODES = [b"a", b"ba", b"zhong guo", b"ni hao ma", b"x", b" y", b"q'r", b"lv", b"ABC", b"a b c d e f g h"]
TEXTS = ["A", "中文", "# hash", "a b", "x#y", " lead", "trail ", "テスト", "é", "#", "c=1 x", "a=b", "T\r", "𠀀"]
# the last three: weights that decayed into the subnormal range / below it - librime prints them (operator<<(double)) but
# std::stod throws std::out_of_range when it reads them back (ERANGE), so Unpack stops at the d= item
DEES = ["0", "0.5", "1", "2.25", "1e-08", "10000", "0.001"] * 3 + ["6.88085e-316", "1.2e-320", "3e-400"]
# INT_MAX itself is kept out of the random stream: a weight of 2147483647 in an import file makes
# `(v.commits + 1) / kS` in table_db.cc:32 overflow (UBSan aborts).  That is undefined behaviour of
# the import path but not a clause of C17; it is reported as an observation, not as a violation.
COUNTS = [INT_MIN + 1, INT_MAX - 1, 1000000, -999999] + list(range(-5, 6)) * 3
TICKS = [0, 1, 2, 3, 10, 11, 1000, 2 ** 32, 2 ** 40, 2 ** 40 - 1]


def hx(b):
    return b.hex() if b else "-"


def unhx(h):
    return b"" if h == "-" else bytes.fromhex(h)


def mk_key(rng, pool):
    return rng.choice(pool)


def key_pool(rng, n):
    pool = set()
    while len(pool) < n:
        code = rng.choice(CODES) + b" "
        text = rng.choice(TEXTS).encode()
        pool.add(code + b"\t" + text)
    return sorted(pool)


def mk_tick(rng):
    r = rng.random()
    if r < 0.7:
        return rng.choice(TICKS)
    return rng.randrange(0, 2 ** 40 + 1)


def mk_value(rng, dbtick):
    c = rng.choice(COUNTS)
    r = rng.random()
    if dbtick is not None and r < 0.6:
        t = rng.randrange(0, dbtick + 1)
    elif r < 0.8:
        t = rng.choice(TICKS)
    else:
        t = rng.randrange(0, 2 ** 40 + 1)
    return ("c=%d d=%s t=%d" % (c, rng.choice(DEES), t)).encode()


OOD_KEYS = [b"notab", b"two\ttabs\there", b"#c \tT", b"nospace\tT", b"\x02ctl \tT", b"cr\r \tT", b" \tT", b"a \t", b"\tT",
            b"a \tt\x0b", b"\x7f \tT", b"\xe4\xb8\xad \tT"]
OOD_VALUES = [b"", b"c=3", b"c=x d=1 t=5", b"t=7 c=2", b"c=3 d=zz t=9", b"c=-2147483649 t=3", b"c= 4 d=1 t= 5",
              b"c=+4  d=.5 t=+6", b"c=4x d=1e3 t=9z", b"t=-1 c=2", b"t=18446744073709551616", b"c=1 d=inf t=2",
              b"c=1 d=-NaN t=2", b"c=2 d=1e+400 t=3", b"c=-3 d=-2.5e999 t=4", b"c=4 d=0.0e999 t=5", b"x=1 c=9", b"c==3", b"=", b"c=2147483648", b"c=\t12 t=\n8", b"c=5 d=1 t=3 c=6"]

IMPORT_LINES = [b"# comment", b"", b"   ", b"# no comment", b"#@/tick\t77", b"#@bad", b"onlyone", b"\tnocode", b"text\t",
                b"#hash\tcode\t3", b"T\t a \t+3", b"T\ta\t12abc", b"T\ta\t", b"T\ta\tabc", b"T\ta\t-7", b"T2\t a b \t0",
                b"T3\ta\t2147483646", b"T3\ta\t2147483648", b"T4\ta\t5\textra", b"T5\ta\t1 \t ", b"T6\ta\t-2147483647\r"]


def gen_case(rng, cid, ood=False, force=None):
    """one case: 2..3 dictionaries, optional hand-made files, 1..12 operations"""
    nusers = rng.choice([2, 3, 3])
    pool = key_pool(rng, rng.randrange(3, 9))
    dbs = {}
    for i in range(nusers):
        tick = None if rng.random() < 0.12 else mk_tick(rng)
        ents = {}
        if rng.random() > 0.15:
            for k in pool:
                if rng.random() < 0.6:
                    ents[k] = mk_value(rng, tick)
        if ood:
            for _ in range(rng.randrange(0, 4)):
                ents[rng.choice(OOD_KEYS)] = mk_value(rng, tick)
            for _ in range(rng.randrange(0, 3)):
                ents[rng.choice(pool)] = rng.choice(OOD_VALUES)
        dbs[i] = (tick, ents)
    files = {}
    if rng.random() < 0.35:
        lines = []
        for _ in range(rng.randrange(1, 10)):
            if rng.random() < 0.5:
                k = rng.choice(pool)
                code, text = k.split(b"\t")
                lines.append(text + b"\t" + code.strip() + b"\t" + str(rng.choice(COUNTS)).encode())
            else:
                lines.append(rng.choice(IMPORT_LINES))
        body = b"\n".join(lines) + (b"\n" if rng.random() < 0.8 else b"")
        files[7] = body
    if ood and rng.random() < 0.6:
        # a hand-made snapshot for restoref/urestore
        lines = [b"# Rime user dictionary", b"#@/db_name\tdict", b"#@/db_type\tuserdb", b"#@/tick\t%d" % mk_tick(rng)]
        for _ in range(rng.randrange(0, 7)):
            r = rng.random()
            if r < 0.5:
                lines.append(rng.choice(pool) + b"\t" + mk_value(rng, None))
            elif r < 0.7:
                lines.append(rng.choice(OOD_KEYS) + b"\t" + rng.choice(OOD_VALUES))
            else:
                lines.append(rng.choice([b"# no comment", b"", b"#x", b"  ", b"a\tb", b"nocode", b"a \tb\tc=2 d=0 t=1  \t",
                                         b"#@/tick\tabc", b"#@/user_id\tsomeone\r"]))
        files[6] = b"\n".join(lines) + b"\n"
    ops = []
    nops = rng.randrange(1, 13)
    g = 0
    if rng.random() < 0.3:
        g = rng.choice([-1, -2, -3, -4, 1, 7, 1000, INT_MIN])
    kinds = ["backup"] * 3 + ["restore"] * 5 + ["sync"] * 3 + ["merge"] * 4 + ["export", "import", "import", "ubackup", "foreign", "leftover"]
    if ood:
        kinds += ["urestore", "restoref", "restoref"]
    if g != 0:
        kinds = ["merge"] * 6 + ["backup", "export", "import", "ubackup"]
    while len(ops) < nops:
        if ops and ops[-1][0] in ("restore", "merge", "restoref") and rng.random() < 0.3:
            ops.append(ops[-1])          # the same merge again: idempotence
            continue
        k = rng.choice(kinds)
        i = rng.randrange(nusers)
        if k in ("restore", "merge"):
            j = rng.randrange(nusers)
            if k == "merge" and j == i:
                j = (i + 1) % nusers
            if k == "restore" and rng.random() < 0.5:
                ops.append(("backup", j, None))
            ops.append((k, i, j))
        elif k in ("export", "ubackup"):
            ops.append((k, i, rng.randrange(0, 3)))
        elif k in ("import", "urestore", "restoref"):
            s = rng.choice([0, 1, 2, 7] if k == "import" else [0, 1, 2, 6])
            ops.append((k, i, s))
        elif k == "leftover":
            # a restore killed after filling its scratch db, then a restore / synchronize by the same installation
            j = rng.randrange(nusers)
            ops.append(("backup", j, None))
            ops.append((k, i, j))
            j2 = rng.randrange(nusers)
            ops.append(("backup", j2, None))
            ops.append(rng.choice([("restore", i, j2), ("restore", i, j2), ("sync", i, None), ("backup", i, None)]))
        elif k == "foreign":
            # the dictionary carries another installation's id: the next Backup / Synchronize re-creates its metadata first
            ops.append((k, i, None))
            if rng.random() < 0.8:
                ops.append((rng.choice(["backup", "backup", "sync"]), i, None))
        else:
            ops.append((k, i, None))
    return dict(id=cid, g=g, dbs=dbs, files=files, ops=ops[:14], ood=ood, paint=False)


def gen_conv_case(rng, cid):
    """in-domain dictionaries, then two rounds of Synchronize (each installation once per round, random orders)"""
    c = gen_case(rng, cid)
    users = sorted(c["dbs"])
    r1, r2 = users[:], users[:]
    rng.shuffle(r1)
    rng.shuffle(r2)
    pre = [o for o in c["ops"][:rng.randrange(0, 4)] if o[0] in ("merge", "backup", "export")]
    c.update(g=0, ops=pre + [("sync", i, None) for i in r1 + r2], conv="rounds", files={})
    return c


TIDY_CODES = [b"a", b"ba", b"zhong guo", b"ni hao ma", b"x", b"q'r", b"lv", b"ABC"]
PLAIN_TEXTS = ["A", "中文", "a b", "x#y", "テスト", "é", "a=b", "𠀀", "trail "]


def gen_rebackup_case(rng, cid):
    """back up D; change commit counts of EXISTING entries without moving the tick or the number of records
    (merge of a snapshot / dictionary with a lower-or-equal tick, text import raising or deleting existing
    phrases); back up D again to the same path; (the harness restores every written snapshot into a fresh
    dictionary).  Also exercises the second backup after no change at all."""
    keys = set()
    while len(keys) < rng.randrange(2, 6):
        keys.add(rng.choice(TIDY_CODES) + b" \t" + rng.choice(PLAIN_TEXTS).encode())
    keys = sorted(keys)
    t0 = rng.choice([5, 20, 1000, 2 ** 32])
    t1 = rng.choice([t0, t0, t0 - 1, 1, 0])
    small = lambda: rng.choice([1, 2, 3, -1, -2, 0])
    big = lambda: rng.choice([9, 6, -6, -9, 1000000, -999999])
    d0 = {k: ("c=%d d=%s t=%d" % (small(), rng.choice(DEES), rng.randrange(0, t0 + 1))).encode() for k in keys}
    d1 = {k: ("c=%d d=%s t=%d" % (big(), rng.choice(DEES), rng.randrange(0, t1 + 1))).encode()
          for k in keys if rng.random() < 0.8}
    lines = []
    for k in keys:
        if rng.random() < 0.7:
            code, text = k.split(b"\t")
            lines.append(text + b"\t" + code.strip() + b"\t" + str(rng.choice([9, 7, -6, -9, 50])).encode())
    files = {7: b"\n".join(lines) + b"\n"}
    change = rng.choice(["merge", "restore", "import", "sync", "none"])
    ops = [("backup", 0, None)]
    if change == "merge":
        ops += [("merge", 0, 1)]
    elif change == "restore":
        ops += [("backup", 1, None), ("restore", 0, 1)]
    elif change == "import":
        ops += [("import", 0, 7)]
    elif change == "sync":
        ops += [("backup", 1, None), ("sync", 0, None)]
    ops += [rng.choice([("backup", 0, None), ("sync", 0, None)])]
    if rng.random() < 0.5:
        ops += [("import", 0, 7), ("backup", 0, None)]
    if rng.random() < 0.5:
        ops += [("restore", 1, 0)]
    return dict(id=cid, g=0, dbs={0: (t0, d0), 1: (t1, d1)}, files=files, ops=ops, ood=False, paint=False)


def boundary_cases(prefix):
    """hand-aimed at the case splits of the proofs: |o| < / = / > |v| with both signs, absent
    sides, ticks <, =, > and absent, the empty snapshot, and a merger whose storage held -N
    before construction (N = number of entries put)."""
    out = []
    n = 0

    def add(g, a, b, ops, paint=False):
        nonlocal n
        dbs = {0: a, 1: b}
        out.append(dict(id="%s%d" % (prefix, n), g=g, dbs=dbs, files={}, ops=ops, ood=False, paint=paint))
        n += 1
    k1, k2, k3 = b"a \tA", b"b \tB", b"c \tC"
    v = lambda c, t: ("c=%d d=1 t=%d" % (c, t)).encode()
    for (co, cv) in [(3, -5), (-2, 1), (4, -4), (-4, 4), (0, 0), (0, -1), (1, 0), (INT_MAX, INT_MIN + 1), (INT_MIN + 1, INT_MAX), (5, 5)]:
        for (to, tv) in [(10, 20), (20, 10), (7, 7), (None, 5), (5, None), (None, None), (0, 0)]:
            add(0, (to, {k1: v(co, 3), k2: v(1, 1)}), (tv, {k1: v(cv, 4), k3: v(-1, 2)}),
                [("merge", 0, 1), ("merge", 0, 1), ("backup", 1, None), ("restore", 0, 1), ("restore", 0, 1)])
    # empty snapshot with a larger tick; empty destination (round trip)
    add(0, (10, {k1: v(3, 3)}), (100, {}), [("merge", 0, 1), ("backup", 1, None), ("restore", 0, 1)])
    add(0, (None, {}), (100, {k1: v(-3, 3), k2: v(0, 50), k3: v(7, 100)}), [("backup", 1, None), ("restore", 0, 1), ("restore", 0, 1)])
    add(0, (5, {}), (2, {k1: v(-3, 3), k2: v(0, 50)}), [("backup", 1, None), ("restore", 0, 1), ("backup", 0, None), ("restore", 1, 0)])
    # storage garbage -N with N entries: the N-th Put reports failure and CloseMerge sees 0
    for nent in (1, 2, 3):
        ents = {k: v(2, 1) for k in [k1, k2, k3][:nent]}
        add(-nent, (10, {k1: v(1, 1)}), (20, ents), [("merge", 0, 1)])
        add(-nent, (10, {}), (20, ents), [("backup", 1, None), ("restore", 0, 1)], paint=True)
    # re-backup to the same path after the counts (only) of existing entries changed: merge of an equal-tick and of a
    # lower-tick dictionary, import raising / deleting existing phrases; every written snapshot is restored into a
    # fresh dictionary by the harness and compared with what was backed up
    for t1 in (20, 7):
        add(0, (20, {k1: v(3, 3), k2: v(-2, 5)}), (t1, {k1: v(9, 1), k2: v(-6, 2)}),
            [("backup", 0, None), ("merge", 0, 1), ("backup", 0, None), ("restore", 1, 0)])
        add(0, (20, {k1: v(3, 3), k2: v(-2, 5)}), (t1, {k1: v(9, 1), k2: v(-6, 2)}),
            [("backup", 0, None), ("backup", 1, None), ("restore", 0, 1), ("sync", 0, None)])
    out.append(dict(id="%s%d" % (prefix, n), g=0, files={7: b"A\ta\t9\nB\tb\t-6\n"}, ood=False, paint=False,
                    dbs={0: (20, {k1: v(3, 3), k2: v(-2, 5)}), 1: (1, {})},
                    ops=[("backup", 0, None), ("import", 0, 7), ("backup", 0, None), ("backup", 0, None)]))
    n += 1
    # Synchronize between three installations (replays of Udb/Examples.v ex_sync_*): back-to-back double syncs do not
    # spread u2's entries to u0; two rounds in different orders make all agree on (key, |commits|); a tie of
    # magnitudes with opposite signs keeps each side's sign for ever
    w3 = {0: (10, {k1: v(3, 3)}), 1: (20, {k1: v(-5, 4), k2: v(1, 1)}), 2: (10, {k3: v(-1, 2)})}
    out.append(dict(id="%s%d" % (prefix, n), g=0, files={}, ood=False, paint=False, conv="anyorder", dbs=dict(w3),
                    ops=[("sync", i, None) for i in (0, 0, 1, 1, 2, 2)]))
    n += 1
    out.append(dict(id="%s%d" % (prefix, n), g=0, files={}, ood=False, paint=False, conv="rounds", dbs=dict(w3),
                    ops=[("sync", i, None) for i in (0, 1, 2, 2, 0, 1)]))
    n += 1
    out.append(dict(id="%s%d" % (prefix, n), g=0, files={}, ood=False, paint=False, conv="rounds",
                    dbs={0: (10, {k1: v(3, 3)}), 1: (20, {k1: v(-3, 3)})},
                    ops=[("sync", i, None) for i in (0, 1, 0, 1, 0, 1)]))
    n += 1
    # out-of-domain, model agreement only: a key with a line break splits into two snapshot lines and the
    # packed value of the first leaks into the key of the second (kept out of the random stream: once such
    # a key is re-packed by later merges its bytes depend on the double, which the model erases)
    out.append(dict(id="%s%d" % (prefix, n), g=0, files={}, ood=True, paint=False,
                    dbs={0: (5, {k1: v(1, 1)}), 1: (9, {b"lf \tT\nq": v(4, 2), k2: v(-2, 3)})},
                    ops=[("backup", 1, None), ("restore", 0, 1), ("ubackup", 1, 0), ("urestore", 0, 0)]))
    n += 1
    # round 4: snapshots whose size is a power-of-two multiple (255 / 256 / 257 / 512 records) with the larger tick - sizes
    # at which a batched writer's remainder is empty; tick, keys and magnitudes are judged as for any merge
    for size in (255, 256, 257, 512):
        big = {b"k%03d \tT%03d" % (i, i): v(1 + i % 5, 1 + i % 7) for i in range(size)}
        out.append(dict(id="%s%d" % (prefix, n), g=0, files={}, ood=False, paint=False,
                        dbs={0: (40, {k1: v(2, 3), b"k001 \tT001": v(9, 4)}), 1: (5000, big)},
                        ops=[("backup", 1, None), ("restore", 0, 1), ("restore", 0, 1), ("merge", 0, 1)]))
        n += 1
    return out


def case_text(c, orders=None):
    """the shared case file; `orders` (per sync op, in order) annotates sync ops for the model"""
    L = ["CASE %s %d" % (c["id"], c["g"])]
    for i, (tick, ents) in sorted(c["dbs"].items()):
        L.append("DB %d %s" % (i, hx(str(tick).encode()) if tick is not None else "-"))
        if ents:
            L.append("ENTS %d " % i + " ".join("%s %s" % (hx(k), hx(val)) for k, val in sorted(ents.items())))
    for s, body in sorted(c["files"].items()):
        L.append("FILE %d %s" % (s, hx(body)))
    L.append("SHOW")
    if c.get("paint"):
        L.append("PAINT")
    oi = 0
    for (k, i, x) in c["ops"]:
        l = "OP %s %d" % (k, i) + ("" if x is None else " %d" % x)
        if k == "sync" and orders is not None:
            l += " order=" + (orders[oi] if oi < len(orders) else "")
            oi += 1
        L.append(l)
    L.append("END")
    return "\n".join(L) + "\n"


# ---------------------------------------------------------------------------
# observations
# ---------------------------------------------------------------------------

def parse_dump(txt):
    f = txt.split()
    if not f or "=" not in f[0]:
        return None
    d = {}
    for x in f[:4]:
        k, val = x.split("=", 1)
        d[k] = None if val == "-" else unhx(val)
    ents = {}
    for x in f[5:]:
        k, c, t = x.rsplit(":", 2)
        ents[unhx(k)] = (int(c), int(t))
    d["ents"] = ents
    return d


def db_tick(d):
    """the dictionary's tick as get_tick_count reads it: absent (or not a number) = 1"""
    try:
        return int(d["tick"].decode()) if d["tick"] is not None else 1
    except ValueError:
        return 1


def snap_tick(d):
    """the tick a snapshot carries into the merger: absent = 0"""
    try:
        return int(d["tick"].decode()) if d["tick"] is not None else 0
    except ValueError:
        return 0


DEE_RE = re.compile(rb" d=[^ \t\n]* t=")


def norm_files(line):
    """mask the dee field (never compared) in the snapshot/export files of E lines, and in keys that
    contain a packed value"""
    parts = line.split(" ")
    out, run, masked = [], [], False

    def flush():
        nonlocal run, masked
        out.extend(sorted(run) if masked else run)   # masking can change the byte order of such keys
        run, masked = [], False
    for p in parts:
        m = re.fullmatch(r"([sf]\d+)=([0-9a-f]+|-)", p)
        k = re.fullmatch(r"([0-9a-f]+):(-?\d+):(\d+)", p)
        if k:
            if len(k.group(1)) % 2 == 0 and b" d=" in unhx(k.group(1)):
                # (out-of-domain keys only) a packed value that leaked into a key through a line break
                run.append("%s:%s:%s" % (hx(DEE_RE.sub(b" d=* t=", unhx(k.group(1)))), k.group(2), k.group(3)))
                masked = True
            else:
                run.append(p)
            continue
        flush()
        if m and len(m.group(2)) % 2 == 0:
            body = DEE_RE.sub(b" d=* t=", unhx(m.group(2)))
            ls = body.split(b"\n")
            if any(l.count(b" d=* t=") >= 2 for l in ls):
                # a key that itself contains a packed value (out-of-domain): its place in the file depends on the double
                head = [l for l in ls if l.startswith(b"#")]
                rest = sorted(l for l in ls if not l.startswith(b"#"))
                body = b"\n".join(head + rest)
            out.append("%s=%s" % (m.group(1), hx(body)))
        else:
            out.append(p)
    flush()
    return " ".join(out)


def wf_key(k):
    """Udb/TsvProofs.v wf_key: code TAB text, code starts with a byte >= 0x20 other than '#', ends with a
    blank, no LF; text non-empty.  Keys outside (they can only arise here by importing a file of the other
    format) are not representable in a snapshot line and are outside the round-trip clause."""
    p = k.split(b"\t")
    if len(p) != 2 or not p[0] or not p[1] or b"\n" in k:
        return False
    return p[0][0] >= 0x20 and p[0][:1] != b"#" and p[0][-1:] == b" "


def check_merge(before, sources, after, stats=None):
    """the property's merge clauses on implementation dumps; returns list of (class, detail)"""
    bad = []
    for k in before["ents"]:
        if k not in after["ents"]:
            bad.append(("key-lost-ours", k))
    for s in sources:
        for k in s["ents"]:
            if not wf_key(k):
                if stats is not None:
                    stats["non_wf_snapshot_keys"] = stats.get("non_wf_snapshot_keys", 0) + 1
                continue
            if k not in after["ents"]:
                bad.append(("key-lost-theirs", k))
    for k, (c, t) in after["ents"].items():
        # merging invents nothing (C17_merge_keys_kept): every entry of the result comes from one of the two sides
        if k not in before["ents"] and not any(k in s["ents"] for s in sources):
            bad.append(("key-invented", k))
            continue
        mags = [abs(s["ents"][k][0]) for s in sources if k in s["ents"]]
        if k in before["ents"]:
            mags.append(abs(before["ents"][k][0]))
            if abs(c) < abs(before["ents"][k][0]):
                bad.append(("magnitude-lowered", k))
                continue
        # a key that no snapshot line can carry may or may not have reached the merger (DbSource does, a file does not)
        if mags and wf_key(k) and abs(c) != max(mags):
            bad.append(("magnitude-not-max", k))
    # tick: the maximum of both sides.  A snapshot without entries may leave the tick alone (CloseMerge
    # returns early when nothing was merged) or raise it to the maximum; both are accepted (see
    # coverage.empty_snapshot_tick); a snapshot that contributes an entry must raise it.
    lo = max([db_tick(before)] + [snap_tick(s) for s in sources if s["ents"]])
    allowed = {lo} | {max(lo, snap_tick(s)) for s in sources if not s["ents"]}
    touched = any(s["ents"] for s in sources) or db_tick(after) != db_tick(before) or after["tick"] != before["tick"]
    if db_tick(after) not in allowed or (any(s["ents"] for s in sources) and after["tick"] is None):
        bad.append(("tick-not-max", b"want one of %s have %r" % (str(sorted(allowed)).encode(), after["tick"])))
    return bad


def merge_classes(before, src):
    """which case splits of the merge proof a (dictionary, snapshot) pair exercises"""
    cl = set()
    for k, (cv, tv) in src["ents"].items():
        if k in before["ents"]:
            co = before["ents"][k][0]
            rel = "<" if abs(co) < abs(cv) else (">" if abs(co) > abs(cv) else "=")
            sg = "same" if (co >= 0) == (cv >= 0) else "opp"
            cl.add("shared|o|%s|v|,%s" % (rel, sg))
        else:
            cl.add("theirs-only" + (",c=0" if cv == 0 else ""))
    if any(k not in src["ents"] for k in before["ents"]):
        cl.add("ours-only")
    if not src["ents"]:
        cl.add("empty-snapshot" + (",larger-tick" if snap_tick(src) > db_tick(before) else ""))
    to, tv = db_tick(before), snap_tick(src)
    cl.add("tick:ours%stheirs" % ("<" if to < tv else (">" if to > tv else "=")) +
           (",ours-absent" if before["tick"] is None else "") + (",theirs-absent" if src["tick"] is None else ""))
    return cl


# ---------------------------------------------------------------------------
# builds
# ---------------------------------------------------------------------------

def build_harness(flavour):
    b = vlib.librime_build(flavour)
    exe = os.path.join(vlib.WORK, "bin", "c17_" + flavour)
    src = os.path.join(vlib.VERIF, "harness", "c17", "c17.cc")
    h = hashlib.sha256()
    h.update(open(src, "rb").read())
    h.update(open(os.path.join(vlib.VERIF, "harness", "common", "rime_env.h"), "rb").read())
    h.update((vlib.REPO + b).encode())
    for d in ("src/rime", "src/rime/dict", "src/rime/lever", "src"):
        dd = os.path.join(vlib.REPO, d)
        for fn in sorted(os.listdir(dd)):
            if fn.endswith(".h"):
                h.update(open(os.path.join(dd, fn), "rb").read())
    stamp = exe + ".stamp"
    with vlib.Lock(exe + ".lock"):
        if os.path.exists(exe) and os.path.exists(stamp) and open(stamp).read() == h.hexdigest():
            return exe, b
        vlib.cxx_build(exe, [src], flags="-I%s/src" % b, libs="-L%s/lib -lrime -lglog -Wl,-rpath,%s/lib" % (b, b),
                       san=(flavour == "asan"))
        open(stamp, "w").write(h.hexdigest())
    return exe, b


def run_impl(exe, root, case_file, mode="direct", timeout=1500, wrapper=None):
    cmd = (wrapper or []) + [exe, root, case_file, mode]
    return vlib.sh2(cmd, timeout=timeout,
                    env={"ASAN_OPTIONS": "detect_leaks=0:abort_on_error=0", "UBSAN_OPTIONS": "print_stacktrace=1"})


# ---------------------------------------------------------------------------
# the check
# ---------------------------------------------------------------------------

def run(ctx):
    facts = udb_inits.generate()
    ctx.coverage["translated_facts"] = {k: facts[k] for k in ("ok", "problems", "merger_fields", "merger_fields_read",
                                                              "importer_fields", "value_fields_zero_default",
                                                              "ctor_inits_merged_entries", "uninitialised_locals",
                                                              "inspected_functions")}
    ctx.coverage["trusted_base"] = [
        "Coq 8.16.1 kernel + vm_compute (the generated facts of Gen/Inits.v, examples); no native_compute",
        "translator gen/udb_inits.py (clang -ast-dump=json of user_db.cc, tsv.cc, db_utils.cc, table_db.cc, user_dict_manager.cc -> member "
        "initialisation facts and the list of automatic variables without initialiser; refuses with translator_ok := false)",
        "Udb/Value.v Merge.v Tsv.v Manager.v as a port of user_db.cc, db_utils.cc, tsv.cc, table_db.cc, level_db.cc (QueryAll), user_dict_manager.cc",
        "extraction: ExtrOcamlBasic only; ocaml/common/glue*.ml + ocaml/c17/driver.ml are conversion glue",
        "harness/c17/c17.cc on the ASan+UBSan build of /repo's working tree; valgrind memcheck on the plain build",
        "LevelDB as a sorted map with Put/Get/iterate; std::ifstream/getline/ostream number formatting as written in Tsv.v/Value.v",
    ]
    ctx.assumptions += [
        "double (dee) is abstract: no theorem mentions its value; the extracted model erases it and dee is never compared",
        "d_print of a double contains no blank/TAB/LF and stod accepts it again (hypotheses dee_print_ok of the theorems; validated: every value the implementation wrote unpacks again in the harness dumps)",
        "commit counts are above INT_MIN (std::abs(INT_MIN) is undefined); generators stay inside",
        "the sync directory's iteration order is an input: the harness reports the order it saw and the model is given the same",
        "tick clause: evaluated when the snapshot contributes at least one entry (CloseMerge returns early otherwise; see coverage.empty_snapshot_tick)",
        "correspondence is differential testing on the generated cases; it validates model = code, it is not the proof",
    ]
    res = vlib.proof_stage(ctx)
    proof_ok = res["ok"]
    mine = ("Udb/", "Properties_C17", "Extract_C17", "Gen/Inits", "Base/")
    own_hits = [h for h in res.get("forbidden", []) if h[0].startswith(mine)]
    if not proof_ok and res.get("make_ok") and res.get("props") and res["props"]["ok"] and not own_hits:
        # the only complaint is a forbidden keyword in a file outside this property's dependency cone
        proof_ok = True
        ctx.coverage["discharged"] = ctx.coverage["obligations"]
        ctx.notes.append("forbidden-keyword hits outside C17's files ignored: %r" % (res.get("forbidden"),))

    if ctx.tier == "thorough" and proof_ok:
        with vlib.Lock(os.path.join(vlib.COQ, ".make.lock")):
            rcc, outc = vlib.sh("timeout 900 coqchk -silent -o -Q . RimeV RimeV.Properties_C17", cwd=vlib.COQ, timeout=930)
        m = re.search(r"\* Axioms:\s*(.*?)\n\s*\n", outc, re.S)
        ctx.coverage["coqchk"] = {"rc": rcc, "axioms": (m.group(1).strip() if m else "?"), "cmd": "coqchk -silent -o -Q . RimeV RimeV.Properties_C17"}
        if rcc != 0:
            proof_ok = False
            ctx.coverage["discharged"] = 0
            ctx.violation("proof:coqchk", "coqchk rejects the compiled proofs of Properties_C17", {"log": outc[-3000:]}, found_input=False)
    okm, logm = vlib.coq_make(["Gen/Inits.vo", "Udb/Manager.vo"])
    if not okm:
        ctx.violation("model-does-not-compile", "the Udb model or the generated Gen/Inits.v does not compile",
                      {"log": logm[-4000:]}, found_input=False)
        return
    rmodel = vlib.ocaml_build("c17", "Extract_C17.v", os.path.join(vlib.VERIF, "ocaml", "c17", "driver.ml"))
    exe, _ = build_harness("asan")

    # ---- cases
    rng = random.Random(ctx.seed * 1000003 + 17)
    ncases, nood = (70, 25) if ctx.tier == "quick" else (650, 220)
    cases = boundary_cases("b")
    cases += [gen_case(rng, "g%d" % i) for i in range(ncases)]
    cases += [gen_case(rng, "o%d" % i, ood=True) for i in range(nood)]
    cases += [gen_conv_case(rng, "v%d" % i) for i in range(12 if ctx.tier == "quick" else 80)]
    cases += [gen_rebackup_case(rng, "r%d" % i) for i in range(30 if ctx.tier == "quick" else 200)]
    unit = []
    for val in OOD_VALUES + [b"c=12 d=1e-3 t=99", b"c=-5 d=0 t=1099511627776", b"c=2147483647 d=1 t=18446744073709551615"]:
        unit.append("U " + hx(val))
    for _ in range(40):
        val = mk_value(rng, None)
        unit.append("U " + hx(val))
        unit.append("P %d %d" % (rng.choice(COUNTS), mk_tick(rng)))
    work = ctx.scratch("c17")
    cf = os.path.join(work, "cases.txt")
    with open(cf, "w") as f:
        for c in cases:
            f.write(case_text(c))
        f.write("\n".join(unit) + "\n")
    rc, out, err = run_impl(exe, os.path.join(work, "root"), cf)
    alllines = [l for l in out.split("\n") if l]
    probes = {}
    for l in alllines:
        if l.startswith("B "):
            f = l.split(" ", 4)
            probes[(f[1], int(f[2]))] = (f[3], parse_dump(f[4]) if len(f) > 4 else None)
    ilines = [l for l in alllines if not l.startswith("B ")]
    if rc != 0 or not ilines or ilines[-1] != "DONE":
        last = [l for l in ilines if l[:2] in ("O ", "E ", "I ")][-1:]
        ctx.violation("harness-abort", "the harness on the real user-db code ended abnormally (sanitizer report or crash) rc=%d" % rc,
                      {"cmd": "%s <root> <cases>" % exe, "stderr": err[-6000:], "last_observation": last,
                       "note": "the case after the last observation is the failing input; cases are generated from seed %d" % ctx.seed},
                      found_input=True)
    # per-case sync orders as the implementation saw them
    orders = {}
    for l in ilines:
        if l.startswith("O ") and " order=" in l:
            f = l.split(" ")
            orders.setdefault(f[1], []).append(re.search(r" order=(\S*)", l).group(1))
    ver = ilines[0].split()[1] if ilines and ilines[0].startswith("V ") else "-"
    mf = os.path.join(work, "cases.model.txt")
    with open(mf, "w") as f:
        f.write("VER %s\n" % ver)
        for c in cases:
            f.write(case_text(c, orders.get(c["id"], [])))
        f.write("\n".join(unit) + "\n")
    rc2, mout, merr = vlib.sh2([rmodel], stdin=open(mf).read(), timeout=1500)
    mlines = [l for l in mout.split("\n") if l]
    if rc2 != 0:
        ctx.violation("model-runner-failed", "the extracted model runner failed", {"stderr": merr[-3000:]}, found_input=False)

    # ---- correspondence
    def canon(l):
        l = re.sub(r" order=\S*", "", l)
        return norm_files(l) if l[:2] in ("E ", "O ", "I ") else l
    icanon = [canon(l) for l in ilines]
    mcanon = [canon(l) for l in mlines]
    mism = []
    for k in range(max(len(icanon), len(mcanon))):
        a = icanon[k] if k < len(icanon) else "<missing>"
        b = mcanon[k] if k < len(mcanon) else "<missing>"
        if a != b:
            mism.append((k, a, b))
    byid = {c["id"]: c for c in cases}

    # ---- the property's oracle on the implementation's observations
    obs = {}
    for l in ilines:
        f = l.split(" ", 3)
        if l.startswith("I "):
            obs.setdefault(l.split(" ")[1], {})["init"] = l
        elif l.startswith("O "):
            obs.setdefault(f[1], {}).setdefault("ops", []).append(l)
        elif l.startswith("E "):
            obs.setdefault(f[1], {})["end"] = l
    fails = []
    stats = dict(cases=len(cases), ops=0, merging_ops=0, roundtrips=0, idempotence_pairs=0, empty_snapshot_larger_tick=0,
                 empty_snapshot_tick_kept=0, op_kinds={}, merge_classes={}, ood_cases=sum(1 for c in cases if c["ood"]),
                 garbage_cases=sum(1 for c in cases if c["g"] != 0),
                 backup_probes=0, rebackup_same_path_counts_changed=0,
                 sync_two_rounds_cases=0, sync_two_rounds_agree=0, sync_two_rounds_sign_differs=0,
                 sync_back_to_back_cases=0, sync_back_to_back_agree=0)
    conv_fail = []
    sigs = set()
    unpack_fail = 0
    for c in cases:
        o = obs.get(c["id"])
        if not o or "init" not in o:
            continue
        state = {}
        for part in o["init"].split(" ", 2)[2].split(" | "):
            m = re.match(r"\s*db(\d+) (.*)", part)
            if m:
                state[int(m.group(1))] = parse_dump(m.group(2))
        snaps, fsrc, written = {}, {}, {}
        prev = None
        for idx, (k, i, x) in enumerate(c["ops"]):
            if idx >= len(o.get("ops", [])):
                break
            l = o["ops"][idx]
            m = re.match(r"O \S+ \d+ (\S+)(?: order=(\S*))? db(\d+) (.*)", l)
            if not m:
                continue
            ret, order, after = m.group(1), m.group(2), parse_dump(m.group(4))
            stats["ops"] += 1
            stats["op_kinds"][k] = stats["op_kinds"].get(k, 0) + 1
            before = state.get(i)
            if after is None or before is None:
                state[i] = after
                continue
            sources = None
            if k == "merge":
                sources = [state[x]]
            elif k == "restore" and ret == "1" and x in snaps:
                sources = [snaps[x]]
            elif k == "restoref" and ret == "1" and x in fsrc:
                sources = [fsrc[x]]
            elif k == "sync":
                sources = [snaps[int(j)] for j in (order or "").split(",") if j != "" and int(j) in snaps]
            if not c["ood"]:
                bad = []
                if sources is not None:
                    stats["merging_ops"] += 1
                    bad += check_merge(before, sources, after, stats)
                    for s in sources:
                        for cl in merge_classes(before, s):
                            stats["merge_classes"][cl] = stats["merge_classes"].get(cl, 0) + 1
                        sig = (tuple(sorted((kk, before["ents"].get(kk, (None,))[0], vv[0]) for kk, vv in s["ents"].items())),
                               db_tick(before), snap_tick(s))
                        if any(kk in before["ents"] and (abs(before["ents"][kk][0]) != abs(vv[0]) or (before["ents"][kk][0] >= 0) != (vv[0] >= 0))
                               for kk, vv in s["ents"].items()):
                            sigs.add(sig)
                        if not s["ents"] and snap_tick(s) > db_tick(before):
                            stats["empty_snapshot_larger_tick"] += 1
                            if db_tick(after) == db_tick(before):
                                stats["empty_snapshot_tick_kept"] += 1
                    if len(sources) == 1 and not before["ents"] and k in ("restore", "restoref"):
                        stats["roundtrips"] += 1
                        want = {kk: vv[0] for kk, vv in sources[0]["ents"].items() if wf_key(kk)}
                        have = {kk: vv[0] for kk, vv in after["ents"].items() if kk in want}
                        if want != have:
                            bad.append(("roundtrip-differs", b"%d entries in the snapshot, %d restored" % (len(want), len(have))))
                    if prev is not None and prev[0] == (k, i, x) and k in ("merge", "restore", "restoref") and ret == prev[2]:
                        stats["idempotence_pairs"] += 1
                        if prev[1]["ents"] != after["ents"] or prev[1]["tick"] != after["tick"]:
                            bad.append(("second-merge-changes", b""))
                elif k in ("backup", "export", "ubackup", "foreign", "leftover"):
                    if before["ents"] != after["ents"]:
                        bad.append(("read-only-op-changed-entries", b""))
                    # a snapshot is a copy: writing one leaves the dictionary's tick alone (otherwise a later merge ends below
                    # the maximum of the two ticks the property speaks of)
                    if before["tick"] != after["tick"]:
                        bad.append(("read-only-op-changed-tick", b"tick before %s, after %s" % (str(before["tick"]).encode(), str(after["tick"]).encode())))
                elif k == "import":
                    for kk in before["ents"]:
                        if kk not in after["ents"]:
                            bad.append(("key-lost-ours", kk))
                for cls, det in bad:
                    fails.append(dict(cls=cls, op="%s %d %s" % (k, i, x), case=c["id"], opidx=idx, key_hex=hx(det) if isinstance(det, bytes) else str(det),
                                      before=o["ops"][idx - 1] if idx else o["init"], after=l, g=c["g"], paint=c.get("paint", False)))
            if (c["id"], idx) in probes and not c["ood"]:
                # the snapshot this operation wrote, restored into a fresh empty dictionary by the harness
                pret, pd = probes[(c["id"], idx)]
                stats["backup_probes"] += 1
                want = {kk: vv[0] for kk, vv in after["ents"].items() if wf_key(kk)}
                have = {kk: vv[0] for kk, vv in (pd["ents"].items() if pd else []) if kk in want}
                path_id = ("snap", i) if k in ("backup", "sync") else ("file", x)
                last = written.get(path_id)
                if last is not None and set(last[0]) == set(want) and last[0] != want and last[1] == after["tick"]:
                    stats["rebackup_same_path_counts_changed"] += 1
                written[path_id] = (want, after["tick"])
                if pret != "1" or want != have:
                    diff = sorted(kk for kk in want if have.get(kk) != want[kk])[:3]
                    fails.append(dict(cls="backup-roundtrip-differs", op="%s %d %s" % (k, i, x), case=c["id"], opidx=idx,
                                      key_hex=hx(b" ".join(b"%s: backed up c=%d, restored c=%s" % (kk, want[kk], str(have.get(kk)).encode())
                                                           for kk in diff)),
                                      before=l, after="B %s %d %s %s" % (c["id"], idx, pret, sorted(have.items())[:8]), g=c["g"],
                                      paint=c.get("paint", False)))
            prev = ((k, i, x), after, ret) if sources is not None else None
            state[i] = after
            if k in ("backup", "sync") and ret.startswith("1"):
                snaps[i] = after
            if k == "ubackup" and ret == "1":
                fsrc[x] = after
            if k == "export":
                fsrc.pop(x, None)
        if c.get("conv") and len(o.get("ops", [])) == len(c["ops"]):
            # Synchronize convergence, observed on the implementation's final dictionaries (well-formed keys)
            fin = [state[i] for i in sorted(state) if state[i] is not None]
            mg = [{kk: abs(vv[0]) for kk, vv in d["ents"].items() if wf_key(kk)} for d in fin]
            sg = [{kk: vv[0] for kk, vv in d["ents"].items() if wf_key(kk)} for d in fin]
            agree = all(m == mg[0] for m in mg)
            if c["conv"] == "rounds":
                stats["sync_two_rounds_cases"] += 1
                stats["sync_two_rounds_agree"] += 1 if agree else 0
                if agree and any(x != sg[0] for x in sg):
                    stats["sync_two_rounds_sign_differs"] += 1
                if not agree:
                    conv_fail.append(c["id"])
            else:
                stats["sync_back_to_back_cases"] += 1
                stats["sync_back_to_back_agree"] += 1 if agree else 0
    # ---- memcheck support run (plain build, ordinary automatic UserDbMerger)
    vg = run_memcheck(ctx, work)

    ctx.coverage.update({
        "evaluations": stats["ops"],
        "distinct_nontrivial": len(sigs),
        "rule": "cases = %d boundary cases (every |ours| </=/> |theirs| x sign x tick relation split of the merge proof, empty snapshot, "
                "empty destination, merger storage pre-filled with -N) + seeded random cases of 2..3 LevelDB dictionaries (counts in "
                "{INT_MIN+1, INT_MAX-1, +-1e6, -5..5}, ticks in {absent, 0..2^40}, shared/unique keys, texts with blanks, '#', UTF-8) and "
                "1..12 operations (backup/restore/sync/merge/export/import/ubackup; re-backup histories: backup, then a merge of a "
                "lower-or-equal-tick snapshot / an import that only changes counts of existing keys, then backup to the same path; every "
                "written snapshot is restored into a fresh dictionary and compared; out-of-domain stream adds urestore/restoref, "
                "malformed keys/values/files and is only diffed against the model); evaluations = operations executed on the real code; "
                "non-trivial = a (dictionary, snapshot) pair of a merging operation with at least one shared key whose two commit counts "
                "differ in magnitude or sign; distinct by (shared keys with both counts, both ticks)" % len(boundary_cases("b")),
        "samples": [case_text(c).split("\n") for c in (cases[3], cases[len(boundary_cases("b")) + 1], cases[-1])],
        "distribution": stats,
        "unit_lines": len(unit),
        "observation_lines": len(ilines),
        "correspondence_mismatches": len(mism),
        "oracle_failures_on_impl": len(fails),
        "memcheck": vg,
        "empty_snapshot_tick": "a snapshot without entries but with a larger tick leaves the dictionary's tick unchanged (CloseMerge "
                               "returns when nothing was merged): observed %d time(s) on the implementation, %d time(s) the tick stayed; "
                               "theorem C17_merge_tick_max carries the hypothesis that at least one entry was put; judged not to break the "
                               "property (nothing of that snapshot enters the dictionary, so no entry can carry a tick above the "
                               "dictionary's), see DESIGN.md section 9" % (stats["empty_snapshot_larger_tick"], stats["empty_snapshot_tick_kept"]),
        "sync_convergence": "observation, not a clause of the property: after two rounds of Synchronize (every installation once per round, "
                            "any orders) all installations agreed on every well-formed key and commit magnitude in %d of %d cases on the "
                            "implementation (in %d of them some sign differs: a tie |ours| = |theirs| keeps each side's own sign, "
                            "C17_sync_sign_tie_example); with back-to-back double syncs they agreed in %d of %d "
                            "(C17_sync_twice_any_order_refuted); cases not converged: %s" % (
                                stats["sync_two_rounds_agree"], stats["sync_two_rounds_cases"], stats["sync_two_rounds_sign_differs"],
                                stats["sync_back_to_back_agree"], stats["sync_back_to_back_cases"], conv_fail[:5]),
        "mutation_drills": MUTATION_DRILLS,
        "exhaustive": False,
    })

    # ---- verdicts
    seen = set()
    for fl in fails:
        c = byid[fl["case"]]
        key = "%s:%s" % (fl["cls"], "uninit-storage" if fl["g"] != 0 else fl["op"].split()[0])
        if key in seen:
            continue
        seen.add(key)
        ctx.violation(key, "on the real code, %s after `%s` (case %s, op %d%s)" % (
            fl["cls"], fl["op"], fl["case"], fl["opidx"],
            ", UserDbMerger constructed over storage that held %d" % fl["g"] if fl["g"] else ""),
            {"case_file": case_text(c).split("\n"), "failing_op_index": fl["opidx"], "class": fl["cls"], "detail_hex": fl["key_hex"],
             "observation_before": fl["before"], "observation_after": fl["after"],
             "how": "write case_file to a file F and run `%s /var/tmp/c17-replay F direct` (ASAN_OPTIONS=detect_leaks=0); the O line of the "
                    "failing op shows the dictionary after the operation" % exe,
             "cmd": "bin/check C17 quick"}, found_input=True)
    if vg.get("errors"):
        ctx.violation("memcheck:uninitialised-read", "valgrind memcheck reports a use of uninitialised memory in the merge/import/export paths",
                      {"cmd": vg.get("cmd"), "report": vg.get("report", "")[-5000:], "case_file": vg.get("case_file")}, found_input=True)
    if not proof_ok and not fails and not vg.get("errors"):
        ctx.violation("proof:Properties_C17", "a proof obligation of Properties_C17.v no longer checks",
                      {"failed": res["failed"], "forbidden": res.get("forbidden"), "translated_facts": ctx.coverage["translated_facts"],
                       "log_tail": res["log"][-3000:] + ((res["props"] or {}).get("log", "")[-3000:])}, found_input=False)
    elif not proof_ok:
        ctx.notes.append("proof obligations of Properties_C17.v do not check: %s" % (res["failed"],))
    if mism and not fails:
        k, a, b = mism[0]
        cid = a.split(" ")[1] if len(a.split(" ")) > 1 else "?"
        c = byid.get(cid)
        ctx.violation("correspondence:c17", "model and implementation disagree on an observation",
                      {"line": k, "impl": a[:3000], "model": b[:3000], "mismatches": len(mism),
                       "case_file": case_text(c, orders.get(cid, [])).split("\n") if c else None}, found_input=False)
    elif mism:
        ctx.notes.append("%d correspondence mismatches, first: %r" % (len(mism), mism[0][1][:300]))


def run_memcheck(ctx, work):
    """the merge / restore / import / export paths once under valgrind (supporting evidence)"""
    try:
        exe, _ = build_harness("plain")
    except vlib.BuildError as e:
        return {"ran": False, "why": str(e)[-500:]}
    k1, k2, k3 = b"a \tA", b"b \tB", b"c \tC"
    v = lambda c, t: ("c=%d d=0.5 t=%d" % (c, t)).encode()
    c = dict(id="vg", g=0, files={7: b"T\ta\t3\nU\tb\t-2\n"}, ood=False, paint=False,
             dbs={0: (10, {k1: v(3, 5), k2: v(-2, 7)}), 1: (20, {k1: v(-5, 15), k2: v(1, 17), k3: v(0, 19)})},
             ops=[("merge", 0, 1), ("backup", 1, None), ("restore", 0, 1), ("sync", 0, None), ("export", 0, 0), ("import", 1, 0),
                  ("import", 1, 7), ("ubackup", 1, 1)])
    cf = os.path.join(work, "vg.txt")
    open(cf, "w").write(case_text(c))
    cmd = ["valgrind", "--error-exitcode=97", "--quiet", "--track-origins=no", "--undef-value-errors=yes", "--leak-check=no"]
    rc, out, err = run_impl(exe, os.path.join(work, "vgroot"), cf, mode="stack", timeout=600, wrapper=cmd)
    uninit = [l for l in err.split("\n") if "uninitialised" in l]
    return {"ran": True, "cmd": " ".join(cmd + [exe, "<root>", "<case>", "stack"]), "rc": rc, "errors": len(uninit),
            "report": err if uninit else "", "case_file": case_text(c).split("\n"), "completed": out.strip().endswith("DONE")}


MANIFEST = {
    "category": "proof",
    "technique": "Coq theorems over a Gallina port of UserDbValue/UserDbMerger/UserDbImporter/TSV codec/UserDictManager; member-initialisation "
                 "facts regenerated from the clang AST of user_db.cc (translator); extracted-model vs implementation correspondence on LevelDB "
                 "dictionaries after every operation; the property's oracle on implementation dumps; valgrind memcheck support run",
    "text": "Properties_C17.v proves for all dictionaries (inductions over entry lists, no size bound) and an abstract double: merging a snapshot "
            "keeps every key of both sides and invents none (C17_merge_keys_kept), leaves each snapshot entry with the larger of the two "
            "magnitudes - theirs iff strictly larger, else ours - stamped with the new tick (C17_merge_magnitude_max, C17_merge_one_sided_kept), "
            "never lowers a magnitude (C17_merge_never_lowers), sets the tick to the maximum of both when the snapshot contributes at least one "
            "entry (C17_merge_tick_max; the unconditional statement is refuted by the empty snapshot, C17_merge_tick_max_full_refuted / "
            "C17_merge_empty_snapshot_noop), is idempotent on (key, commits, tick) and the tick (C17_merge_idempotent); UniformBackup then "
            "UniformRestore reproduces every record of a well-formed dictionary byte for byte (C17_snapshot_roundtrip) and UserDictManager "
            "Backup -> Restore into an empty dictionary reproduces exactly the keys with their commit counts (C17_backup_restore_into_empty); "
            "the import rule (C17_import_semantics) and the export/import line codec (C17_export_import_line); over every history of "
            "backup/restore/synchronize/export/merge operations - also on a dictionary that carries another installation's /user_id "
            "(OForeign: the next Backup re-creates its metadata) - no dictionary loses an entry or lowers a magnitude (C17_history_never_loses); "
            "and, given the constructor facts extracted from the current source (C17_members_initialised, "
            "C17_ctor_initialises_merged_entries), a merge reads no uninitialised member and is independent of the storage's previous "
            "content (C17_merge_reads_initialised).  Whole files: Export then Import into any dictionary follows the import rule with "
            "ticks and metadata untouched and comment/#@ lines ignored (C17_export_import_file, C17_export_import_into_empty).  Beyond "
            "the property: two covering rounds of Synchronize between any number of installations make all agree on keys and commit "
            "magnitudes (C17_sync_two_rounds_converge); back-to-back double syncs do not (C17_sync_twice_any_order_refuted) and signs "
            "need not converge (C17_sync_sign_tie_example) - both replayed on the real code as observations.  Each implication has a "
            "computed example beside it.",
    "note": "No axioms (Print Assumptions: closed under the global context; thorough also runs coqchk). Trusted: Coq kernel + vm_compute; "
            "gen/udb_inits.py (clang JSON AST -> init facts, refuses with translator_ok := false); the port in coq/Udb/*.v (validated by "
            "differential testing against the real classes on LevelDB after every operation, including out-of-domain keys/values/files; the "
            "double is erased in the extracted instance and never compared); ExtrOcamlBasic extraction and the OCaml/C++ glue. Hypotheses: a "
            "printed double has no blank and parses again; commit counts above INT_MIN (abs(INT_MIN) is undefined in C++); round trip only "
            "for well-formed keys (code TAB text, code starting with a byte >= 0x20 other than '#' and ending with a blank, no LF; other keys "
            "cannot be carried by a snapshot line); tick clause needs >= 1 merged entry (CloseMerge's early return; judged not to break the "
            "property, DESIGN.md section 9); the sync directory's iteration order is an input; export round trip only for keys whose code is "
            "tidy (no surrounding isspace bytes) and whose text does not start with '#'; convergence needs a printed double free of isspace "
            "bytes.  Gaps: std::abs(INT_MIN) and the int overflow of `commits + 1` in "
            "table_db.cc:32 for a weight of INT_MAX are outside the model.",
}
