"""C02 - the context reported after any call is well-formed.

proof:  Properties_C02.v: wf_reported - an inductive invariant of Api.step over ALL ops with
        arbitrary arguments implies Spec.wf_viewb of every observation; it needs the source fact
        "Context::DeleteCandidate looks the candidate up first" (gen/eng_facts.py) - with the
        unchecked code the faithful model refutes the statement (wf_reported_refuted_unchecked);
tie:    translators gen/keymaps.py + gen/eng_facts.py, and the line-by-line correspondence of the
        extracted model with the real session API on the synthetic schemas (all ops, arbitrary
        keys/indices/carets/options);
search: the well-formedness predicate itself (Spec.wf_viewb / wf_view_utf8b, extracted) is
        evaluated on EVERY implementation observation of every history, on the synthetic and on
        the stock schemas; a sanitizer abort is replayed on the NDEBUG build to read the state.
"""
import collections
import os
import random
import re
import sys

import vlib

sys.path.insert(0, os.path.join(vlib.VERIF, "gen"))
import englib  # noqa: E402
import engpat  # noqa: E402
import eng_facts  # noqa: E402
import keymaps  # noqa: E402

LEVEL = "proof"

MUTATION_DRILLS = [
 {
  "mutation": "revert the repair: Context::DeleteCandidate writes selected_index = index unchecked (gen/eng_facts.py then yields DeleteUnchecked and C02_delete_guard_in_source fails as well)",
  "ran": "scratch worktree /var/tmp/wt-eng at /repo HEAD + the mutation; VERIF_REPO=/var/tmp/wt-eng VERIF_CACHE=/var/tmp/rime-verif-eng bin/check C02 quick",
  "exit": 1,
  "printed": "VIOLATION property=C02 replay=replays/C02-quick-0.json",
  "violation_keys": [
   "wf:menu:after-del:stock",
   "wf:menu:after-del:synth",
   "wf:menu:after-delp:stock",
   "wf:menu:after-delp:synth",
   "wf:menu:after-getctx:synth",
   "wf:menu:after-key+mod:synth",
   "wf:menu:after-key:stock",
   "wf:menu:after-key:synth"
  ]
 },
 {
  "mutation": "Context::Highlight: new_index = min(candidate_count, index) (accepts index == count)",
  "ran": "scratch worktree /var/tmp/wt-eng at /repo HEAD + the mutation; VERIF_REPO=/var/tmp/wt-eng VERIF_CACHE=/var/tmp/rime-verif-eng bin/check C02 quick",
  "exit": 1,
  "printed": "VIOLATION property=C02 replay=replays/C02-quick-0.json",
  "violation_keys": [
   "wf:menu:after-caret:stock",
   "wf:menu:after-caret:synth",
   "wf:menu:after-del:stock",
   "wf:menu:after-del:synth",
   "wf:menu:after-delp:synth",
   "wf:menu:after-getcommit:stock",
   "wf:menu:after-getcommit:synth",
   "wf:menu:after-getctx:synth"
  ]
 },
 {
  "mutation": "RimeGetContext: page_no = (selected_index + 1) / page_size",
  "ran": "scratch worktree /var/tmp/wt-eng at /repo HEAD + the mutation; VERIF_REPO=/var/tmp/wt-eng VERIF_CACHE=/var/tmp/rime-verif-eng bin/check C02 quick",
  "exit": 1,
  "printed": "VIOLATION property=C02 replay=replays/C02-quick-0.json",
  "violation_keys": [
   "wf:menu:after-del:stock",
   "wf:menu:after-del:synth",
   "wf:menu:after-delp:stock",
   "wf:menu:after-delp:synth",
   "wf:menu:after-getcommit:synth",
   "wf:menu:after-hl:stock",
   "wf:menu:after-hl:synth",
   "wf:menu:after-hlp:stock"
  ]
 },
 {
  "mutation": "(seeded) Context::set_caret_pos no longer clamps (clamp moved into RimeSetCaretPos) + Navigator::BeginMove keeps its span cache while the input is a prefix of the recorded one: after trailing BackSpaces a syllable jump sets caret > |input| (caught by the span_cache pattern histories)",
  "ran": "scratch worktree /var/tmp/wt-eng at /repo HEAD + the change; VERIF_REPO=/var/tmp/wt-eng VERIF_CACHE=/var/tmp/rime-verif-eng bin/check C02 quick",
  "exit": 1,
  "printed": "VIOLATION property=C02 replay=replays/C02-quick-0.json",
  "violation_keys": [
   "wf:caret:after-getctx:stock",
   "wf:caret:after-getctx:synth",
   "wf:caret:after-getinput:stock",
   "wf:caret:after-getinput:synth",
   "wf:caret:after-key+mod:stock",
   "wf:caret:after-key+mod:synth",
   "wf:caret:after-key:stock",
   "wf:caret:after-key:synth"
  ],
  "first_replay": {
   "schema": "luna_pinyin",
   "history_tail": [
    "key 122 0",
    "key 104 0",
    "key 65367 0",
    "key 65288 0",
    "key 65289 0"
   ]
  }
 },
 {
  "mutation": "(seeded) ConcreteEngine::OnOptionUpdate restores the previous selected_index after re-translating: a shorter list (zh_simp + uniquifier on luna_pinyin; option verif_short of the oracle translator on the synthetic schemas) gives highlighted >= num_candidates (caught by the option_toggle pattern histories)",
  "ran": "scratch worktree /var/tmp/wt-eng at /repo HEAD + the change; VERIF_REPO=/var/tmp/wt-eng VERIF_CACHE=/var/tmp/rime-verif-eng bin/check C02 quick",
  "exit": 1,
  "printed": "VIOLATION property=C02 replay=replays/C02-quick-0.json",
  "violation_keys": [
   "wf:menu:after-getctx:stock",
   "wf:menu:after-getctx:synth",
   "wf:menu:after-key:synth",
   "wf:menu:after-opt:stock",
   "wf:menu:after-opt:synth"
  ],
  "first_replay": {
   "schema": "luna_pinyin",
   "history_tail": [
    "key 101 0",
    "key 105 0",
    "key 65364 0",
    "key 65364 0",
    "key 65364 0",
    "opt zh_simp 1"
   ]
  }
 }
]


def clause_of(d):
    """Which clause of the property fails for a parsed observation (naming of the violation key only;
    the verdict itself comes from the extracted Coq predicate)."""
    if "crash" in d:
        return "crash"
    n_in = len(englib.unhex(d["I"]))
    if d["K"] > n_in:
        return "caret"
    if d["c"] == "0" and (n_in or d["P"] != "-" or d["pl"] or d["n"] or d["ps"]):
        return "not-composing"
    if d["pl"] != len(englib.unhex(d["P"])) or not (0 <= d["ss"] <= d["se"] <= d["pl"]) or not (0 <= d["pc"] <= d["pl"]):
        return "preedit"
    if d["n"] or d["ps"]:
        return "menu"
    return "other"


def op_kind(op):
    k = op.split()[0]
    if k == "key":
        f = op.split()
        return "key" if int(f[2]) == 0 else "key+mod"
    return k


def ascii_history(ops):
    for o in ops:
        if o.startswith("input ") and o.split()[1] != "-":
            if any(b >= 0x80 for b in bytes.fromhex(o.split()[1])):
                return False
    return True


def abort_site(err):
    m = re.search(r"#0 0x[0-9a-f]+ in ([\w:~]+)", err)
    site = m.group(1) if m else "unknown"
    m2 = re.search(r"runtime error: ([^\n]{0,60})", err)
    what = "ubsan" if m2 else ("asan" if "AddressSanitizer" in err else "signal")
    return "%s:%s" % (what, site)


WITNESSES_SYNTH = [
    ("synth_express", ["key 118 0", "del 2"]),                       # the refutation witness of Properties_C02.v
    ("synth_fluid", ["key 118 0", "getctx", "delp 2", "getctx"]),
    ("synth_express", ["key 120 0", "key 65535 4"]),                 # Control+Delete with no candidate
    ("synth_fluid", ["key 97 0", "key 98 0", "del 9999", "getctx"]),
    ("synth_express", ["key 97 0", "hl 3", "del 18446744073709551615", "key 65366 0"]),
]
WITNESSES_STOCK = [
    ("luna_pinyin", ["key %d 0" % ord(c) for c in "yqhxry"] + ["del 2", "getctx"]),
    ("cangjie5", ["key %d 0" % ord(c) for c in "ab"] + ["del 7", "getctx", "del 9999"]),
    ("luna_pinyin_fluid", ["key %d 0" % ord(c) for c in "ni"] + ["key 65535 4", "delp 4", "del 1000000"]),
]


def run(ctx):
    maps, handlers, ok_maps, log = keymaps.generate()
    guard, flat = eng_facts.generate()
    ctx.coverage["source_facts"] = {"delete_candidate_guard": guard, "Context::DeleteCandidate": flat,
                                    "keymaps_recognised": ok_maps}
    ctx.coverage["trusted_base"] = [
        "Coq 8.16.1 kernel + vm_compute (refutation witness, key-map lookups); no native_compute",
        "translators gen/keymaps.py and gen/eng_facts.py (lexical extraction; refuse with ...Unrecognised)",
        "the Gallina port coq/Eng/*.v of Context/Composition/Segmentation/Menu/engine/speller/selector/navigator/editor/API "
        "(validated by the correspondence, not proved against the C++)",
        "extraction: ExtrOcamlBasic only; ocaml/common/glue*.ml + ocaml/eng/driver.ml are parsing/printing glue",
        "harness/eng/session.cc + oracle_translator.h (sanitizer build of /repo's working tree; NDEBUG build for replays of aborts)",
    ]
    ctx.assumptions += [
        "translator oracle hypotheses of the theorem: every candidate list is shorter than 2^31 - page_size; for the UTF-8 clause: "
        "candidate texts/preedits start at character boundaries (validated: the harness checks every reported text) and the raw input is ASCII",
        "the theorem covers the modelled engine core (synthetic schemas); the stock schemas' other components (punctuator, "
        "switcher, key_binder, ascii_composer, translators, filters) are covered by evaluating the predicate on the implementation",
        "Menu is modelled by its complete candidate list (prepared count not modelled); Context::Highlight(SIZE_MAX) is outside the "
        "correspondence domain",
        "correspondence is differential testing on the generated histories; it validates model = code, it is not the proof",
    ]
    res = vlib.proof_stage(ctx)
    proof_ok = res["ok"]

    model = englib.build_model()
    impl = englib.build("asan")
    work = englib.prepare_workspaces(ctx.scratch("eng"), "asan", stock=True)

    rng = random.Random(ctx.seed * 104729 + 2)
    quick = ctx.tier == "quick"
    n_synth, n_stock = (1200, 200) if quick else (9000, 1400)

    def length():
        r = rng.random()
        return rng.randrange(1, 10) if r < 0.2 else (rng.randrange(10, 45) if r < 0.8 else rng.randrange(45, 120))

    synth = list(WITNESSES_SYNTH) + [(englib.SYNTH[i % 2], englib.gen_api_history(rng, length())) for i in range(n_synth)]
    stock = list(WITNESSES_STOCK) + [(englib.STOCK[i % 4], englib.gen_api_history(rng, length(), stock=True))
                                     for i in range(n_stock)]

    # navigator span cache after trailing deletions; option toggles after moving the highlight (both kinds of schema)
    n_pat = 60 if quick else 500
    synth += [(englib.SYNTH[i % 2], englib.gen_span_history(rng)) for i in range(n_pat)]
    synth += [(englib.SYNTH[i % 2], englib.gen_option_history(rng, stock=False)) for i in range(n_pat)]
    stock += [(englib.STOCK[i % 4], englib.gen_span_history(rng)) for i in range(n_pat)]
    stock += [(englib.STOCK[i % 4], englib.gen_option_history(rng, stock=True)) for i in range(n_pat)]
    stock.append(("luna_pinyin", ["getctx"] + ["key %d 0" % ord(c) for c in "ei"] + ["key 65364 0"] * 3 + ["opt zh_simp 1", "getctx"]))
    stock.append(("luna_pinyin", ["getctx"] + ["key %d 0" % ord(c) for c in "nihaoma"] +
                  ["key 65361 0", "key 65367 0"] + ["key 65288 0"] * 3 + ["key 65361 0", "key 65363 4", "getinput"]))
    # round 3: the schema switcher opened idle / while composing and driven through the API while its menu shows (stock only:
    # the synthetic workspace has no hot key); fully converted compositions kept by _auto_commit off, with soft_cursor
    n_sw = 80 if quick else 600
    stock += [(englib.STOCK[i % 4], engpat.gen_switcher_history(rng)) for i in range(n_sw)]
    stock += [(englib.STOCK[i % 4], engpat.gen_no_autocommit_history(rng)) for i in range(n_sw // 2)]
    synth += [(englib.SYNTH[i % 2], engpat.gen_no_autocommit_history(rng)) for i in range(n_sw // 2)]
    # round 3: punctuation keys on the synth_punct_* schemas (punctuator, punct_segmentor, punct_translator in the chains)
    n_punct = 300 if quick else 3000
    synth += [(englib.SYNTH_PUNCT[i % 2], englib.gen_punct_history(rng, length())) for i in range(n_punct)]
    synth += [(englib.SYNTH_PUNCT[i % 2], englib.gen_api_history(rng, length())) for i in range(n_punct // 3)]
    synth += [(englib.SYNTH_KB[i % 2], englib.gen_kb_history(rng, length())) for i in range(n_punct)]
    synth += [(englib.SYNTH_KB[i % 2], englib.gen_api_history(rng, length())) for i in range(n_punct // 3)]
    # round 4: ascii_composer / ascii_segmentor in the chains (synth_ascii_*: model diff + oracles; stock: oracles, with the
    # mode-switch taps that the virtual clock of hook 19b65ff makes deterministic)
    synth += [(englib.SYNTH_ASCII[i % 2], englib.gen_ascii_history(rng, length())) for i in range(n_punct)]
    synth += [(englib.SYNTH_ASCII[i % 2], englib.gen_api_history(rng, length())) for i in range(n_punct // 3)]
    stock += [(englib.STOCK[i % 4], englib.gen_ascii_history(rng, length(), stock=True)) for i in range(n_punct // 2)]
    # round 4: multi-character pops with the caret inside the input (back_syllable after a leftward move)
    synth += [(englib.SYNTH[i % 2], englib.gen_back_syllable_history(rng, stock=False)) for i in range(n_pat)]
    stock += [(englib.STOCK[i % 4], englib.gen_back_syllable_history(rng, stock=True)) for i in range(2 * n_pat)]
    ctx.coverage["punct_histories"] = {"punct_keys": n_punct, "api_on_punct_schemas": n_punct // 3,
                                       "key_binder": n_punct, "api_on_key_binder_schemas": n_punct // 3,
                                       "ascii_composer": n_punct, "api_on_ascii_schemas": n_punct // 3,
                                       "ascii_composer_on_stock_schemas": n_punct // 2}
    ctx.coverage["pattern_histories"] = {"span_cache": 2 * n_pat, "option_toggle": 2 * n_pat,
                                         "switcher_open": n_sw, "no_auto_commit": 2 * (n_sw // 2),
                                         "opencc_data": os.path.isdir(englib.OPENCC)}

    stats = collections.Counter()
    opc = collections.Counter()
    samples = []
    fails = {}     # key -> dict
    mism = []
    aborts = []

    def evaluate(kind, histories, outs, model_outs):
        # the oracle runs over all lines at once
        flat, owner = [], []
        for h, o in enumerate(outs):
            for i, l in enumerate(o[1] if o else []):
                flat.append(l)
                owner.append((h, i))
        flags = englib.wf_flags(model, flat)
        for (h, i), l, (core, utf8) in zip(owner, flat, flags):
            schema, ops = histories[h]
            d = englib.parse_obs(l)
            stats["evaluations"] += 1
            opc[op_kind(ops[i])] += 1
            if "crash" in d:
                continue
            if d["n"]:
                stats["menu_reported"] += 1
                if d["pg"] > 0 or d["hl"] > 0:
                    stats["menu_beyond_first"] += 1
                if d["n"] < d["ps"]:
                    stats["short_page"] += 1
            if d["ss"] > 0:
                stats["multi_segment_preedit"] += 1
            if 0 < d["K"] < len(englib.unhex(d["I"])):
                stats["caret_in_middle"] += 1
            if d["c"] == "0":
                stats["not_composing"] += 1
            bad = None
            if core != "1":
                bad = clause_of(d)
            elif utf8 != "1" and ascii_history(ops[:i + 1]):
                bad = "utf8-boundary"
            if bad:
                k = "wf:%s:after-%s:%s" % (bad, op_kind(ops[i]), kind)
                if k not in fails:
                    fails[k] = dict(kind=kind, schema=schema, ops=ops[:i + 1], line=l, flavour="asan")
        for h, (schema, ops) in enumerate(histories):
            stats["histories_" + kind] += 1
            if model_outs is not None and outs[h] is not None:
                dpos = englib.first_diff(outs[h][1], model_outs[h][1])
                if dpos is not None:
                    mism.append((schema, ops, dpos, outs[h][1][dpos] if dpos < len(outs[h][1]) else None,
                                 model_outs[h][1][dpos] if dpos < len(model_outs[h][1]) else None))
                if any(l.startswith("CRASH") for l in model_outs[h][1]):
                    stats["model_says_undefined"] += 1
            if len(samples) < 6 and h % 53 == 7 and outs[h] and outs[h][1]:
                samples.append({"schema": schema, "ops": ops[-3:], "last_observation": outs[h][1][-1][:200]})

    for kind, hs in (("synth", synth), ("stock", stock)):
        outs, crashes = englib.run_impl_resilient(impl, work, kind, hs, tag="c02", max_crashes=6)
        mo = None
        if kind == "synth":
            mo, _, _ = englib.run_model(model, hs, dlog=True)
        evaluate(kind, hs, outs, mo)
        for idx, rc, err in crashes:
            n_done = len(outs[idx][1]) if outs[idx] else 0
            aborts.append(dict(kind=kind, schema=hs[idx][0], ops=hs[idx][1][:n_done + 1], rc=rc, err=err))

    # ---- aborts: replay on the NDEBUG build to read the reported state (the DLOG-only dereference is skipped there)
    plain = None
    for a in aborts:
        if plain is None:
            plain = englib.build("plain")
            pwork = englib.prepare_workspaces(ctx.scratch("eng-plain"), "plain", stock=any(x["kind"] == "stock" for x in aborts))
        o, rc, err = englib.run_impl(plain, pwork, a["kind"], [(a["schema"], a["ops"])], tag="c02p")
        lines = o[0][1] if o else []
        flags = englib.wf_flags(model, lines) if lines else []
        a["plain_rc"] = rc
        a["plain_lines"] = lines[-3:]
        for i, (l, (core, utf8)) in enumerate(zip(lines, flags)):
            if core != "1":
                d = englib.parse_obs(l)
                k = "wf:%s:after-%s:%s" % (clause_of(d), op_kind(a["ops"][i]), a["kind"])
                if k not in fails:
                    fails[k] = dict(kind=a["kind"], schema=a["schema"], ops=a["ops"][:i + 1], line=l, flavour="plain")
                break

    # ---- verdicts
    def fails_wf(f):
        exe, wk = (impl, work) if f["flavour"] == "asan" else (plain, pwork)

        def pred(ops):
            o, rc, err = englib.run_impl(exe, wk, f["kind"], [(f["schema"], ops)], tag="c02s")
            lines = o[0][1] if o else []
            if rc != 0:
                return False      # shrink towards a history that shows the ill-formed state, not the abort
            fl = englib.wf_flags(model, lines) if lines else []
            return any(c != "1" for c, u in fl)
        return pred

    for k, f in sorted(fails.items()):
        small = f["ops"]
        if not k.startswith("wf:utf8"):
            small = englib.shrink(f["ops"], fails_wf(f), budget=40 if quick else 150)
        exe, wk = (impl, work) if f["flavour"] == "asan" else (plain, pwork)
        o, rc, err = englib.run_impl(exe, wk, f["kind"], [(f["schema"], small)], tag="c02r")
        ctx.violation(k, "an ill-formed state is reported on schema %s (%s build): %s" % (f["schema"], f["flavour"], k),
                      {"schema": f["schema"], "history": small, "observations": (o[0][1] if o else []),
                       "first_seen": f["line"], "build": f["flavour"],
                       "how": "write 'schema %s' + the history lines to a file F; run %s <scratch> %s F; the last observation "
                              "line violates Spec.wf_viewb (fields K/I, c, P/pl/pc/ss/se, ps/pg/hl/n/si)" % (f["schema"], exe, f["kind"])},
                      found_input=True)
    for a in aborts:
        ctx.violation("abort:%s" % abort_site(a["err"]),
                      "the session harness ended abnormally (sanitizer report or crash) on schema %s" % a["schema"],
                      {"schema": a["schema"], "history": a["ops"], "stderr": a["err"][-2500:],
                       "ndebug_replay": {"rc": a.get("plain_rc"), "last_observations": a.get("plain_lines")}}, found_input=True)
    if mism and not fails and not aborts:
        schema, ops, dpos, x, y = mism[0]

        def differs(o2):
            io, rc, err = englib.run_impl(impl, work, "synth", [(schema, o2)], tag="c02d")
            mo2, _, _ = englib.run_model(model, [(schema, o2)], dlog=True)
            return bool(io) and englib.first_diff(io[0][1], mo2[0][1]) is not None
        small = englib.shrink(ops[:dpos + 1], differs, budget=60)
        ctx.violation("correspondence:synth", "the extracted model and the implementation disagree on an observation",
                      {"schema": schema, "history": small, "first_seen": {"op_index": dpos, "impl": x, "model": y},
                       "mismatching_histories": len(mism)}, found_input=False)
    if not proof_ok and not fails and not aborts:
        ctx.violation("proof:Properties_C02", "a proof obligation of Properties_C02.v no longer checks",
                      {"failed": res["failed"], "forbidden": res.get("forbidden"), "source_facts": ctx.coverage["source_facts"],
                       "log_tail": res["log"][-3000:] + ((res["props"] or {}).get("log", "")[-3000:])}, found_input=False)
    ctx.coverage.update({
        "evaluations": stats["evaluations"],
        "distinct_nontrivial": stats["menu_beyond_first"] + stats["multi_segment_preedit"] + stats["short_page"],
        "rule": "an evaluation = one observation (after one op) on which Spec.wf_viewb (and wf_view_utf8b for ASCII-input histories) "
                "is evaluated; non-trivial = a menu with the highlight beyond the first candidate/page, a page shorter than "
                "page_size, or a preedit whose highlighted part does not start at 0 (earlier segments converted)",
        "samples": samples, "distribution": dict(stats), "op_kinds": dict(opc),
        "schemas": englib.SYNTH + englib.SYNTH_PUNCT + englib.SYNTH_KB + englib.SYNTH_ASCII + englib.STOCK, "correspondence_mismatches": len(mism),
        "oracle_failures_on_impl": len(fails), "aborts": len(aborts), "exhaustive": False,
        "mutation_drills": MUTATION_DRILLS,
    })


MUTATION_DRILLS += [
    {"mutation": "round 4, ascii_composer.cc: `now < toggle_expired_` -> `now <= toggle_expired_` (a tap released exactly 500 ms after the press toggles)",
     "ran": "scratch worktree of /repo 074aebe: VERIF_REPO=/var/tmp/wt-acdrill VERIF_CACHE=/var/tmp/rime-verif-acdrill bin/check C02 quick",
     "fired": "VIOLATION no-failing-input-found: correspondence:synth (synth_ascii_* histories with `tick 500` between press and release differ from the "
              "model); the translated constant ascii_window_strict (gen/eng_facts.py) makes C01_ascii_composer_source_constants fail as well. "
              "Not a clause of C02: no failing input exists for the property itself"},
    {"mutation": "round 4, ascii_composer.cc SwitchAsciiMode: commit_code no longer calls ClearNonConfirmedComposition before Commit",
     "ran": "same", "fired": "VIOLATION no-failing-input-found: correspondence:synth (the converted text is committed where the model commits the code)"},
    {"mutation": "round 4, ascii_segmentor.cc: `j < input.length()` -> `j + 1 < input.length()` (a single trailing character gets no raw segment)",
     "ran": "same", "fired": "VIOLATION no-failing-input-found: correspondence:synth"},
    {"mutation": "round 4, ascii_composer.cc ProcessCapsLock: lower-case letters typed with Caps Lock on are committed unswapped",
     "ran": "same", "fired": "VIOLATION no-failing-input-found: correspondence:synth (commit text differs)"},
]

MANIFEST = {
    "category": "proof",
    "technique": "Coq inductive invariant over the session-engine model (all API ops, arbitrary arguments; source facts and key maps "
                 "regenerated from the source) + extracted-model/API correspondence + the predicate evaluated on every "
                 "implementation observation",
    "text": "Properties_C02.v proves that after every finite sequence of API calls (for ANY chain over speller, punctuator, selector, "
            "navigator, editor, key_binder and - round 4 - ascii_composer / ascii_segmentor with every mode-switch style, the tap window "
            "on any clock and Caps Lock handling; keys with arbitrary codes and masks, set_input, "
            "set_caret_pos beyond the end, select/highlight/delete by arbitrary index, paging, options, commit, clear) everything a "
            "client can read is well-formed: caret <= |input|; not composing implies no input, preedit or menu; 0 <= sel_start <= "
            "sel_end <= length and 0 <= cursor <= length; a reported menu has 0 <= highlighted < candidates on the page <= page size "
            "and page_no * page_size + highlighted = the selected index (wf_reported: an inductive invariant of Api.step, no bound "
            "on the history); and, for ASCII raw input and translators whose candidate texts/preedits start at character "
            "boundaries, that sel_start, sel_end and cursor_pos are UTF-8 character boundaries of the preedit (wf_reported_utf8; "
            "comp_preedit_wf / comp_preedit_utf8 are statements about GetPreedit for arbitrary compositions).  The proof needs the source fact that Context::DeleteCandidate looks the candidate up before writing "
            "selected_index, which gen/eng_facts.py re-reads from context.cc on every run; for the unchecked code the same model "
            "proves the statement false (wf_reported_refuted_unchecked).  The extracted model is diffed observation by observation "
            "against the real API on two synthetic schemas, and the extracted predicate is evaluated on every observation of the "
            "implementation on the synthetic schemas, luna_pinyin and cangjie5 (both editors).",
    "note": "Closed under the global context (no axioms). Trusted: Coq kernel + vm_compute; gen/eng_facts.py, gen/keymaps.py; the "
            "Gallina port of the engine (validated by differential testing); ExtrOcamlBasic extraction and the OCaml/C++ glue. "
            "Translator hypotheses (premises of the theorems, instantiated for the synthetic schemas in C02_wf_reported*_synth): "
            "candidate lists shorter than 2^31 - page_size; for the UTF-8 boundary clause clean candidate texts/preedits (implied by "
            "valid UTF-8) and ASCII input. The stock schemas' extra components are covered by evaluating the "
            "predicate on the implementation only.",
}
