"""C13 - an interrupted deployment is repaired by the next, never mistaken for complete.

proof:  Properties_C13.v over Gen/BuildOrder.v (statement order of Table::Build /
        Prism::Build / ReverseDb::Build, Remove()-before-Build at the call sites,
        MappedFile::Create/Allocate/OpenReadOnly, ConfigData::SaveToFile mode),
        regenerated from the current source by gen/build_order.py.
tie:    translator + correspondence: for every hook kill point of a deployment the
        extracted model's Load verdict on the builder's effect prefix is compared
        with the real Load of the file the kill left; the extracted SaveToFile
        model with the size the kill left under the final name.
search: the property's own oracle on the real code - kill a real deployment at
        every kill point (guarded RIME_VERIF_CRASHPOINT hook and LD_PRELOAD file
        system interposer), offer every artefact to the real Load, redeploy the
        same sources, compare with an uninterrupted clean deployment.
"""
import copy
import os
import random
import re
import shutil
import sys

import vlib

sys.path.insert(0, os.path.join(vlib.VERIF, "gen"))
sys.path.insert(0, os.path.join(vlib.VERIF, "harness", "dep"))
import build_order  # noqa: E402
import deplib  # noqa: E402

LEVEL = "proof"

KINDS = {"Table": 0, "Prism": 1, "ReverseDb": 2}
KNAME = {0: "table", 1: "prism", 2: "reverse"}
PROG = {0: "KTable", 1: "KPrismF", 2: "KReverse"}
# hook site -> the last metadata field stored when it is reached
SITE_FIELD = {
    "Table::Build:metadata-fields": "num_entries", "Table::Build:syllabary": "syllabary", "Table::Build:index": "index",
    "Table::OnBuildFinish:end": "string_table_size", "Table::Build:string-table": "string_table_size",
    "Prism::Build:metadata-fields": "num_spellings", "Prism::Build:double-array": "double_array_size",
    "Prism::Build:spelling-map": "spelling_map",
    "ReverseDb::Build:metadata-fields": "dict_file_checksum", "ReverseDb::Build:index": "index.at",
    "ReverseDb::Build:key-trie": "key_trie_size", "ReverseDb::Build:value-trie": "value_trie_size",
}

MUTATION_DRILLS = [
    {"mutation": "WorkspaceUpdate::Run: var/last_build_time written (own scope, saved at once) at the START instead of after the schemas",
     "ran": "VERIF_REPO=<worktree> bin/check C13 quick",
     "fired": "exit 1 with failing kill points: translator 'SetInt(var/last_build_time) precedes the schema loop' -> "
              "C13_stamp_written_last fails; start-up sweeps: startup:stale-after-redeploy:{table.bin,prism.bin,reverse.bin,"
              "schema.yaml,yaml} and startup:leftover-after-redeploy (RimeStartMaintenance(False) answered 'nothing to do' at "
              "65/70 small-startup, 28/30 bigyaml-startup, 39/40 edit-startup, 39/41 small-sys-startup kill points); the "
              "full-deployment sweeps stay clean, as expected"},
    {"mutation": "DictCompiler::Compile: a missing / unloadable / mismatching reverse db no longer sets rebuild_table",
     "ran": "VERIF_REPO=<worktree> bin/check C13 quick",
     "fired": "exit 1 with failing kill points: reverse-window-not-rebuilt and stale-after-redeploy:reverse.bin at "
              "DictCompiler::BuildTable:table-saved, DictCompiler::BuildReverseDb:reverse-removed, MappedFile::Resize:resized "
              "(the table's Save) and every ReverseDb::Build:* point (scenario small)"},
    {"mutation": "Table::Build: write the format tag right after the metadata is allocated (before the data)",
     "ran": "VERIF_REPO=<worktree> bin/check C13 quick",
     "fired": "translator: prog_KTable has STag before the field stores -> C13_builders_translated_ok fails; sweep (small): "
              "load-crash:table, dump-crash-after-kill, redeploy-failed, stale-after-redeploy:* at Table::Build:index and "
              "MappedFile::Allocate:zeroed, each with the failing kill point (VIOLATION with replay, exit 1)"},
    {"mutation": "DictCompiler::BuildReverseDb: drop reverse_db.Remove() (revert cda34e2)",
     "ran": "VERIF_REPO=<worktree> bin/check C13 quick",
     "fired": "translator: bf_remove_before KReverse = false -> proof fails; sweep (edit / edit-sys, dictionary shrinks): "
              "load-crash:reverse, redeploy-failed, stale-after-redeploy:* at MappedFile::Resize:resized, "
              "Create:resized-existing, Create:mapped and at the truncate(2) of t.reverse.bin (SIGBUS), exit 1"},
    {"mutation": "ConfigData::SaveToFile: write in place again (revert 3b794a3)",
     "ran": "VERIF_REPO=<worktree> bin/check C13 quick",
     "fired": "translator: bf_save_mode = InPlace -> proof fails; sweep (bigyaml): stale-after-redeploy:* at "
              "ConfigData::SaveToStream:emitted-unflushed and at the first writev of big.schema.yaml"},
    {"mutation": "MappedFile::OpenReadOnly: let the mapping exception escape again (revert 2136dea)",
     "ran": "VERIF_REPO=<worktree> bin/check C13 quick",
     "fired": "translator: bf_open_guarded = false -> proof fails; sweep: load-crash:* and redeploy-failed at "
              "MappedFile::Create:truncated-new (SIGABRT)"},
]


def site_class(mode, site):
    if mode == "hook":
        return site.split(" ")[0]
    f = site.split(" ")
    call, path = f[0], (f[1] if len(f) > 1 else "")
    base = os.path.basename(path)
    ext = base.split(".", 1)[1] if "." in base else base
    return "%s:%s" % (call, ext)


def luna_populate(ws):
    src = os.path.join(vlib.REPO, "data", "minimal")
    for f in sorted(os.listdir(src)):
        dst = os.path.join(ws, "shared", f)
        if not os.path.exists(dst) or open(dst, "rb").read() != open(os.path.join(src, f), "rb").read():
            shutil.copyfile(os.path.join(src, f), dst)
    with open(os.path.join(ws, "user", "default.custom.yaml"), "w") as f:
        f.write("patch:\n  schema_list:\n    - schema: luna_pinyin\n")
    with open(os.path.join(ws, "user", "luna_pinyin.custom.yaml"), "w") as f:
        f.write("patch:\n  \"punctuator/import_preset\": symbols\n")
    i = 0
    for sub in ("shared", "user"):
        for f in sorted(os.listdir(os.path.join(ws, sub))):
            p = os.path.join(ws, sub, f)
            if os.path.isfile(p) and f not in ("user.yaml", "installation.yaml"):
                t = 1500000000 + i
                os.utime(p, ns=(t * 10**9, t * 10**9))
                i += 1


def edit_scenario():
    st = deplib.small_state()
    pre = copy.deepcopy(st)
    syl = ["ba", "bi", "bu", "da", "di", "du", "ga", "gu", "ha", "hu", "ka", "ku", "la", "li", "lu", "ma", "mi", "mu", "na", "ni"]
    pre["dicts"]["t"]["rows"] += [(chr(0x4e00 + i), syl[i % 20], i % 50 + 1) for i in range(3000)]
    pre["schemas"]["t"]["algebra"] = ["abbrev/^([a-z]).+$/$1/"]
    files = sorted(deplib.render(st))
    pm = {f: 1500000000 + i for i, f in enumerate(files)}
    m = dict(pm)
    m["shared/t.dict.yaml"] = 1500001000
    m["shared/t.schema.yaml"] = 1500001001
    return st, pre, m, pm


def algebra_edit_scenario():
    """round 3: only the spelling algebra of one schema changes (the dictionary sources do not): the compiled schema and
    the prisms are the only artefacts a redeploy rewrites, so whether a kill between the two is repaired depends on what
    the PRISM FILE says about the schema it was built from - nothing else on disk differs from an up-to-date build."""
    st = deplib.small_state()
    pre = copy.deepcopy(st)
    pre["schemas"]["t"]["algebra"] = ["abbrev/^([a-z]).+$/$1/"]
    pre["schemas"]["u"]["algebra"] = ["xform/^b/p/", "derive/^j/q/"]
    files = sorted(deplib.render(st))
    pm = {f: 1500000000 + i for i, f in enumerate(files)}
    m = dict(pm)
    m["shared/t.schema.yaml"] = 1500001001
    m["shared/u.schema.yaml"] = 1500001002
    return st, pre, m, pm


def model_correspondence(ctx, rmodel, facts, res, mism, stats):
    """compare the extracted model with what the real Load says at each hook kill point of a clean-start sweep"""
    rc, out, err = vlib.sh2([rmodel], stdin="T 0\nT 1\nT 2\n", timeout=60)
    tinfo = [tuple(int(x) for x in l.split()) for l in out.split("\n") if l.strip()]
    fields = {k: [e.split(":", 1)[1] for e in facts["progs"][PROG[k]] if e.startswith("SField:")] for k in (0, 1, 2)}
    obs = {n: (site, probe, left) for n, site, probe, left in res["observations"]}
    pts = res["all_points"]
    queries, meta = [], []
    i = 0
    while i < len(pts):
        n, site = pts[i]
        if site != "MappedFile::Create:truncated-new":
            i += 1
            continue
        # one builder segment: up to the Resize that follows the format tag
        seg, j, kind, tagged = [], i, None, False
        while j < len(pts):
            s = pts[j][1]
            m = re.match(r"(Table|Prism|ReverseDb)::", s)
            if m and kind is None:
                kind = KINDS[m.group(1)]
            seg.append(pts[j])
            if s.endswith(":format-tag"):
                tagged = True
            if tagged and s == "MappedFile::Resize:resized":
                break
            if j > i and s == "MappedFile::Create:truncated-new":
                seg.pop()
                break
            j += 1
        i = j + 1 if j > i else i + 1
        if kind is None or n not in obs:
            continue
        # the file under construction: the zero-length file of that kind at the first point
        left0 = obs[n][2]
        cand = [f for f, sz in left0.items() if sz == 0 and f.endswith("." + KNAME[kind] + ".bin")]
        if len(cand) != 1:
            continue
        fname = cand[0]
        ne, zeroed = 0, False
        nf = len(fields[kind])
        for pn, ps in seg:
            if ps == "MappedFile::Create:truncated-new":
                ne = 1
            elif ps in ("MappedFile::Create:sized-new", "MappedFile::Create:mapped"):
                ne = 2
            elif ps == "MappedFile::Allocate:zeroed":
                if not zeroed:
                    ne, zeroed = 3, True
            elif ps == "MappedFile::Allocate:grown":
                ne = None
                break
            elif ps in SITE_FIELD:
                fld = SITE_FIELD[ps]
                if fld not in fields[kind]:
                    ne = None
                    break
                ne = max(ne, 3 + fields[kind].index(fld) + 1)
            elif ps.endswith(":format-tag"):
                ne = 3 + nf + 1
            elif ps == "MappedFile::Resize:resized":
                ne = 3 + nf + 2
            if pn in obs and fname in obs[pn][1]:
                queries.append("M %d %d 6000 5000 100" % (kind, ne))
                meta.append((pn, ps, fname, kind, ne, obs[pn][1][fname][1].split(" ")[0]))
    rc, out, err = vlib.sh2([rmodel], stdin="\n".join(queries) + "\n", timeout=300)
    mres = [l.strip() for l in out.split("\n") if l.strip()]
    for (pn, ps, fname, kind, ne, real), mo in zip(meta, mres):
        real = {"accept": "accept", "reject": "reject", "CRASH": "crash"}.get(real, real)
        stats["mmap_cases"] += 1
        stats["mmap_by_model_verdict"][mo] = stats["mmap_by_model_verdict"].get(mo, 0) + 1
        if mo != real:
            mism.append(dict(stream="mmap", point=pn, site=ps, file=fname, effects=ne, model=mo, impl=real))
        if len(stats["samples"]) < 8 and (pn % 17 == 3 or ps.endswith("format-tag")):
            stats["samples"].append(dict(point=pn, site=ps, file=fname, effects=ne, model=mo, impl=real))
    stats["builder_segments_tag_index"] = tinfo


def yaml_correspondence(rmodel, facts, res, deplog_names, mism, stats):
    """sizes the real kill leaves under the final name vs the extracted SaveToFile model"""
    obs = {n: (site, probe, left) for n, site, probe, left in res["observations"]}
    pts = res["all_points"]
    segs, cur = [], None
    for n, site in pts:
        if site == "ConfigData::SaveToFile:opened":
            cur = [(n, site)]
            segs.append(cur)
        elif cur is not None and site in ("ConfigData::SaveToStream:emitted-unflushed", "ConfigData::SaveToFile:written",
                                          "ConfigData::SaveToFile:renamed", "SaveOutputPlugin:written", "SaveOutputPlugin:renamed",
                                          "ConfigData::SaveToFileAtomically:written", "ConfigData::SaveToFileAtomically:renamed"):
            cur.append((n, site))
            if site.endswith("renamed"):
                cur = None
    # only the saves that were followed by a rename are compiled configs (user.yaml is written in place)
    if any(s.endswith("renamed") for _, s in pts):
        segs = [sg for sg in segs if any(s.endswith("renamed") for _, s in sg)]
    queries, meta = [], []
    for seg, name in zip(segs, deplog_names):
        size = res["final_sizes"].get(name)
        if size is None:
            continue
        k = (size - 1) // deplib.BUFSZ if size > 0 else 0
        chunks = [deplib.BUFSZ] * k + [size - k * deplib.BUFSZ]
        cs = ",".join(str(c) for c in chunks)
        for n, site in seg:
            if n not in obs:
                continue
            if site.endswith("opened"):
                ne = 1
            elif site.endswith("emitted-unflushed"):
                ne = 1 + k
            elif site.endswith("written"):
                ne = 1 + len(chunks)
            else:
                ne = 2 + len(chunks)
            left = obs[n][2]
            real = "size %d" % left[name] if name in left else "absent"
            queries.append("Y %d - %s" % (ne, cs))
            meta.append((n, site, name, ne, real))
    if not queries:
        return
    rc, out, err = vlib.sh2([rmodel], stdin="\n".join(queries) + "\n", timeout=120)
    mres = [l.strip() for l in out.split("\n") if l.strip()]
    for (n, site, name, ne, real), mo in zip(meta, mres):
        stats["yaml_cases"] += 1
        if mo != real:
            mism.append(dict(stream="yaml-save", point=n, site=site, file=name, effects=ne, model=mo, impl=real))
        elif len(stats["samples"]) < 14 and name.startswith("big"):
            stats["samples"].append(dict(point=n, site=site, file=name, effects=ne, model=mo, impl=real))


def run(ctx):
    # stale replay files of an earlier run of this check would be misleading
    import glob
    for old in glob.glob(os.path.join(vlib.VERIF, "replays", "C13-%s-*.json" % ctx.tier)):
        os.remove(old)
    facts = build_order.generate()
    ctx.coverage["translated_facts"] = {k: facts[k] for k in ("progs", "call_sites", "remove_before", "create_resizes_existing",
                                                               "alloc_zeroes", "open_guarded", "save_mode", "save_why", "stamp_last", "stamp_why")}
    ctx.coverage["trusted_base"] = [
        "Coq 8.16.1 kernel + vm_compute (finite sweep over the generated facts); no native_compute",
        "translator gen/build_order.py (narrow lexical extraction from table.cc, prism.cc, reverse_lookup_dictionary.cc, "
        "dict_compiler.cc, mapped_file.{h,cc}, config_data.cc; unknown shapes become SUnknown/false/SaveUnknown)",
        "effect semantics of Dep/Crash.v (file = size, tag, stored fields, extent); Load as ported there",
        "extraction: ExtrOcamlBasic only; ocaml/common/glue.ml + ocaml/c13/driver.ml are conversion glue",
        "harness/dep: deptool.cc (real Load / real Config loader), killpoint.c (LD_PRELOAD), deplib.py (sweep); "
        "hooks-on build of /repo's working tree (plain flavour: no sanitizer, for speed)",
    ]
    ctx.assumptions += [
        "page-cache semantics: a killed process leaves every completed system call and every store into a MAP_SHARED "
        "mapping visible to the next process (a power failure is out of scope); rename(2) is atomic",
        "H_crc (crc_inj, cyid_inj): CRC32 is injective on the occurring contents; H_mtime (coherent, nonzero): a file "
        "name with the same mtime has the same contents within the history, mtimes are non-zero",
        "wf_srcs: default.yaml exists, listed schemas exist, every schema's dictionary has its source file",
        "the estimated size of a builder's file covers its data (C06's subject): mmap_tagged_complete assumes ext <= fin <= est",
        "kill points sampled, not exhaustive, for the large (luna_pinyin) workspace; in quick also for the start-up-path sweeps",
        "the start-up path sees only what DetectModifications looks at (mtimes of the data directories and of their top-level "
        "*.yaml files against var/last_build_time)",
    ]
    res = vlib.proof_stage(ctx)
    proof_ok = res["ok"]

    T = deplib.Tools("plain")
    rng = random.Random(ctx.seed)
    scratch = ctx.scratch("c13")
    keep = os.path.join(vlib.VERIF, "replays", "c13-ws")
    thorough = ctx.tier == "thorough"
    sweeps = []

    small = deplib.small_state()
    sweeps.append(("small", deplib.sweep(T, scratch, "small", small), small, None))
    sweeps.append(("small-sys", deplib.sweep(T, scratch, "small-sys", small, mode="sys"), small, None))
    big, bigsize, tuned = deplib.tune_bigyaml(T, scratch)
    ctx.coverage["bigyaml"] = {"compiled_schema_bytes": bigsize, "buffer_boundary_on_line_end": tuned}
    sweeps.append(("bigyaml", deplib.sweep(T, scratch, "bigyaml", big), big, None))
    sweeps.append(("bigyaml-sys", deplib.sweep(T, scratch, "bigyaml-sys", big, mode="sys"), big, None))
    st, pre, m, pm = edit_scenario()
    sweeps.append(("edit", deplib.sweep(T, scratch, "edit", st, pre_state=pre, mtimes=m, pre_mtimes=pm), st, pre))
    sweeps.append(("edit-sys", deplib.sweep(T, scratch, "edit-sys", st, pre_state=pre, mtimes=m, pre_mtimes=pm, mode="sys"), st, pre))
    st2, pre2, m2, pm2 = algebra_edit_scenario()
    sweeps.append(("edit-algebra", deplib.sweep(T, scratch, "edit-algebra", st2, pre_state=pre2, mtimes=m2, pre_mtimes=pm2), st2, pre2))
    if thorough:
        sweeps.append(("edit-algebra-sys", deplib.sweep(T, scratch, "edit-algebra-sys", st2, pre_state=pre2, mtimes=m2, pre_mtimes=pm2, mode="sys"),
                       st2, pre2))
    # the same kills followed by the frontends' start-up deployment (RimeStartMaintenance(False) through the API in a
    # fresh process: it deploys only if DetectModifications finds a source newer than var/last_build_time)
    sweeps.append(("small-startup", deplib.sweep(T, scratch, "small-startup", small, redeploy="startup",
                                                 max_points=(None if thorough else 70), rng=rng), small, None))
    sweeps.append(("bigyaml-startup", deplib.sweep(T, scratch, "bigyaml-startup", big, redeploy="startup",
                                                   max_points=(None if thorough else 30), rng=rng), big, None))
    sweeps.append(("edit-startup", deplib.sweep(T, scratch, "edit-startup", st, pre_state=pre, mtimes=m, pre_mtimes=pm,
                                                redeploy="startup", stamp=1500000500, max_points=(None if thorough else 40), rng=rng),
                   st, pre))
    sweeps.append(("small-sys-startup", deplib.sweep(T, scratch, "small-sys-startup", small, mode="sys", redeploy="startup"), small, None))
    nl = 60 if thorough else 5
    sweeps.append(("luna", deplib.sweep(T, scratch, "luna", luna_populate, max_points=nl, rng=rng), "data/minimal luna_pinyin + symbols patch", None))
    sweeps.append(("luna-sys", deplib.sweep(T, scratch, "luna-sys", luna_populate, mode="sys", max_points=(40 if thorough else 4), rng=rng),
                   "data/minimal luna_pinyin + symbols patch", None))
    sweeps.append(("luna-startup", deplib.sweep(T, scratch, "luna-startup", luna_populate, redeploy="startup",
                                                max_points=(30 if thorough else 3), rng=rng),
                   "data/minimal luna_pinyin + symbols patch", None))
    if thorough:
        # random synthetic workspaces: vary rows / algebra / imports
        for r in range(4):
            s2 = copy.deepcopy(small)
            rows = s2["dicts"]["t"]["rows"]
            for i in range(rng.randint(5, 400)):
                rows.append((chr(0x5000 + i), rng.choice(["jia", "yi", "bing", "wu", "zhong"]) +
                             ("" if rng.random() < 0.6 else " " + rng.choice(["ding", "er", "san"])), rng.randint(1, 99)))
            s2["schemas"]["u"]["algebra"].append("derive/^%s/%s/" % (rng.choice("jybwz"), rng.choice("qxk")))
            sweeps.append(("rand%d" % r, deplib.sweep(T, scratch, "rand%d" % r, s2), s2, None))
            sweeps.append(("rand%d-sys" % r, deplib.sweep(T, scratch, "rand%d-sys" % r, s2, mode="sys"), s2, None))

    # --- verdicts of the property's oracle on the real code
    tot_pts = tot_run = 0
    per = {}
    seen = set()
    nfail = 0
    for name, r, state, prestate in sweeps:
        tot_pts += r["points_total"]
        tot_run += r["points_run"]
        per[name] = {"kill_points": r["points_total"], "run": r["points_run"], "load_outcomes": r["outcomes"],
                     "next_deployment": r.get("redeploy", "full"), "startup_deployed": r.get("startup_started", 0),
                     "startup_nothing_to_do": r.get("startup_skipped", 0),
                     "table_without_reverse_points": r.get("reverse_window_points", 0),
                     "site_kinds": len(r["sites"]), "failures": len(r["failures"])}
        for f in r["failures"]:
            nfail += 1
            cls = site_class(r["mode"], f.get("site", "-"))
            key = "%s%s@%s" % ("startup:" if r.get("redeploy") == "startup" else "", f["kind"], cls)
            if key in seen:
                continue
            seen.add(key)
            replay = {"scenario": name, "mode": r["mode"], "kill_point": f.get("point"), "site": f.get("site"),
                      "artefact": f.get("artefact"), "detail": f.get("detail"), "files_left_by_kill": f.get("files_left_by_kill"),
                      "workspace_state": state if isinstance(state, (dict, str)) else str(state), "pre_state": prestate,
                      "how": "materialise the workspace (harness/dep/deplib.py: materialise), run `rime_deployer --build "
                             "<ws>/user <ws>/shared <ws>/user/build` of the hooks-on build with "
                             + ("VERIF_DEPLOY_CRASH_AT=<kill_point>" if r["mode"] == "hook" else
                                "LD_PRELOAD=_work/bin/killpoint.so VERIF_KILL_DIR=<ws>/user VERIF_KILL_AT=<kill_point>")
                             + " (exit 137); "
                             + ("the next deployment is the start-up path: `<run dir>/snap-plain/bin/deptool startup <ws>/user "
                                "<ws>/shared <ws>/user/build check` (RimeStartMaintenance(False) + join); " if r.get("redeploy") == "startup" else "")
                             + "run `<run dir>/snap-plain/bin/deptool probe-all <ws>/user/build`, deploy again without the "
                               "variable and compare `deptool dump` with that of a clean deployment",
                      "cmd": "bin/check C13 %s" % ctx.tier}
            ctx.violation(key, "kill at %s (%s, scenario %s): %s" % (f.get("site"), r["mode"], name, f["kind"]), replay, found_input=True)
    ctx.coverage["sweeps"] = per
    ctx.coverage["kill_points_total"] = tot_pts
    ctx.coverage["kill_points_exercised"] = tot_run
    ctx.coverage["oracle_failures_on_impl"] = nfail

    # --- correspondence model <-> implementation
    mism = []
    stats = {"mmap_cases": 0, "yaml_cases": 0, "mmap_by_model_verdict": {}, "samples": []}
    okm, logm = vlib.coq_make(["Gen/BuildOrder.vo", "Dep/Crash.vo"])
    if okm:
        rmodel = vlib.ocaml_build("c13", "Extract_C13.v", os.path.join(vlib.VERIF, "ocaml", "c13", "driver.ml"))
        for name, r, state, prestate in sweeps:
            if name in ("small", "bigyaml") or (name.startswith("rand") and not name.endswith("sys")):
                model_correspondence(ctx, rmodel, facts, r, mism, stats)
                # names of the compiled configs in save order = the decision log of a clean deployment
                ws = os.path.join(scratch, "names-" + name)
                deplib.materialise(ws, state)
                dl = os.path.join(scratch, "names-%s.log" % name)
                if os.path.exists(dl):
                    os.remove(dl)
                T.deploy(ws, deplog=dl)
                names = [l.split(" ", 1)[1].strip() for l in open(dl) if l.startswith("config-rebuild ")]
                yaml_correspondence(rmodel, facts, r, names, mism, stats)
                shutil.rmtree(ws, ignore_errors=True)
    else:
        ctx.violation("model-does-not-compile", "Dep/Crash.v or the generated Gen/BuildOrder.v does not compile",
                      {"log": logm[-4000:]}, found_input=False)
    ctx.coverage.update({
        "evaluations": stats["mmap_cases"] + stats["yaml_cases"] + tot_run,
        "distinct_nontrivial": sum(len(r["sites"]) for _, r, _, _ in sweeps),
        "rule": "one case = one kill point of a real deployment (every RIME_VERIF_CRASHPOINT ordinal and every file-system call "
                "below the user directory for the synthetic workspaces; a stratified sample - first/last occurrence of every "
                "site kind + random - for luna_pinyin); non-trivial = distinct (scenario, kill-site kind) pairs, counted",
        "samples": stats["samples"],
        "model_vs_impl_mmap_cases": stats["mmap_cases"], "model_vs_impl_yaml_cases": stats["yaml_cases"],
        "mmap_by_model_verdict": stats["mmap_by_model_verdict"],
        "correspondence_mismatches": len(mism), "exhaustive": False,
        "mutation_drills": MUTATION_DRILLS,
    })
    if not proof_ok and not ctx.violations:
        unk = [e for k in facts["progs"] for e in facts["progs"][k] if e.startswith("SUnknown")]
        ctx.violation("proof:Properties_C13", "a proof obligation of Properties_C13.v no longer checks",
                      {"failed": res["failed"], "forbidden": res.get("forbidden"), "unrecognised": unk,
                       "facts": ctx.coverage["translated_facts"],
                       "log_tail": res["log"][-3000:] + ((res["props"] or {}).get("log", "")[-3000:])}, found_input=False)
    if mism and not ctx.violations:
        ctx.violation("correspondence:c13", "model and implementation disagree on what a kill leaves / what Load says",
                      {"first": mism[0], "mismatches": len(mism), "more": mism[1:6]}, found_input=False)


MANIFEST = {
    "category": "proof",
    "technique": "Coq theorems over builder effect lists regenerated from the source (translator) + staleness-decision model; "
                 "kill-point sweep of real deployments (guarded crash-point hook + LD_PRELOAD interposer) as correspondence and oracle",
    "text": "Properties_C13.v proves, for the statement order of Table::Build, Prism::Build and ReverseDb::Build, the call sites, "
            "MappedFile::{Create,Allocate,OpenReadOnly} and ConfigData::SaveToFile as translated from the current source on every "
            "run: every kill point before the format-tag write leaves a file Load rejects (mmap_prefix_rejected, all prefixes, all "
            "sizes, any previous file); every later one leaves the complete file (mmap_tagged_complete); a compiled YAML's final "
            "name never holds a strict prefix (yaml_save_atomic); and from any build directory whose surviving artefacts are "
            "self-describing a deployment rebuilds exactly the artefacts of a clean deployment and succeeds iff it does "
            "(redeploy_completes, unbounded, via a simulation invariant).  The three pre-repair shapes are refuted by witnesses. "
            "Every run kills real deployments of small, multi-buffer and luna_pinyin workspaces at hook and system-call kill "
            "points, offers every artefact to the real Load, redeploys and compares with a clean deployment.",
    "note": "Partial: page-cache semantics (kill -9, not power loss) and atomic rename are assumed; the builders' data layout is "
            "abstracted to (size, tag, stored fields, extent); CRC injectivity and distinct mtimes are named hypotheses; luna_pinyin "
            "kill points are sampled. Trusted: Coq kernel + vm_compute, gen/build_order.py (lexical), ExtrOcamlBasic extraction and "
            "glue, harness/dep. Print Assumptions: closed under the global context for every theorem.",
}
