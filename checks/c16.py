"""C16 - sessions are isolated from one another and replay deterministically.

proof: Properties_C16.v - the service layer (map id -> session) generic in the
       per-session engine: frame, interleaving invariance, created-session =
       solo run from the settings persisted at creation, dead ids rejected,
       ids distinct; plus the sweep over the session functions of the API
       re-translated from the clang AST on every run.
tie:   translator gen/session_api.py; correspondence of the extracted service
       model with the real library on generated multi-session scripts
       (life cycle, find/destroy results, accept/reject of every call);
search: the property's own oracle on the real code: the transcript of every
       session incarnation in the interleaved run must equal its solo run in a
       fresh process and the replay of the whole script in a third process;
       every call on a dead / never-issued id must give that call's fixed
       rejected observation.
"""
import os
import random
import sys
from concurrent.futures import ThreadPoolExecutor

import vlib

sys.path.insert(0, os.path.join(vlib.VERIF, "gen"))
import session_api  # noqa: E402

LEVEL = "proof"

CUSTOM = {
    "luna_pinyin.custom.yaml": "patch:\n  translator/enable_user_dict: false\n",
    "cangjie5.custom.yaml": "patch:\n  translator/enable_user_dict: false\n",
    # round 3: a third schema that SHARES luna_pinyin's dictionary but has its own prism (spelling algebra of its own) -
    # the common shape of real installations (double pinyin / fuzzy pinyin on one dictionary), absent from data/minimal.
    # What one session gets from the components' weak-pointer pools must not depend on what another session holds alive.
    "default.custom.yaml": "patch:\n  schema_list:\n    - schema: luna_pinyin\n    - schema: cangjie5\n    - schema: luna_zcs\n",
    "luna_zcs.schema.yaml": """schema:
  schema_id: luna_zcs
  name: zcs
  version: "1"
engine:
  processors: [ascii_composer, recognizer, key_binder, speller, punctuator, selector, navigator, express_editor]
  segmentors: [ascii_segmentor, matcher, abc_segmentor, punct_segmentor, fallback_segmentor]
  translators: [punct_translator, script_translator]
  filters: [uniquifier]
speller:
  alphabet: zyxwvutsrqponmlkjihgfedcba
  delimiter: " '"
  algebra:
    - derive/^([zcs])h/$1/
    - derive/^n/l/
translator:
  dictionary: luna_pinyin
  prism: luna_zcs
  enable_user_dict: false
punctuator:
  import_preset: default
key_binder:
  import_preset: default
recognizer:
  import_preset: default
""",
}
SCHEMAS = ["luna_pinyin", "cangjie5", "luna_zcs"]

REJECTED = {
    "key": "ret 0", "simulate": "ret 0", "select": "ret 0", "select_on_page": "ret 0", "highlight": "ret 0", "page": "ret 0",
    "commit": "ret 0", "clear": "unit", "get_commit": "ret 0 text NULL", "get_context": "ret 0", "get_status": "ret 0",
    "set_option": "unit", "get_option": "ret 0", "set_property": "unit", "get_property": "ret 0 NULL",
    "select_schema": "ret 0", "get_schema": "ret 0 NULL", "set_input": "ret 0", "get_input": "NULL caret 0", "set_caret": "unit",
}

XK = {"space": 0x20, "Return": 0xff0d, "BackSpace": 0xff08, "Escape": 0xff1b, "Tab": 0xff09, "Left": 0xff51, "Right": 0xff53,
      "Up": 0xff52, "Down": 0xff54, "Home": 0xff50, "End": 0xff57, "Page_Up": 0xff55, "Page_Down": 0xff56, "Delete": 0xffff}
CONTROL, RELEASE = 1 << 2, 1 << 30


def gen_ops_live(rnd):
    """ops for a live session: a burst of typing plus reads"""
    r = rnd.random()
    if r < 0.50:
        out = []
        for _ in range(rnd.randint(1, 6)):
            t = rnd.random()
            if t < 0.70:
                code, mask = ord(rnd.choice("abcdefghijklmnopqrstuvwxyz")), 0
            elif t < 0.80:
                code, mask = ord(rnd.choice("12345,.;'\"'\"[]<>")), 0
            elif t < 0.95:
                code, mask = XK[rnd.choice(list(XK))], 0
            else:
                code, mask = ord(rnd.choice("abnp")), rnd.choice([CONTROL, RELEASE])
            out.append("key %d %d" % (code, mask))
            if rnd.random() < 0.5:
                out.append(rnd.choice(["get_context", "get_commit", "get_input"]))
        return out
    choices = [
        lambda: ["select %d" % rnd.choice([0, 1, 2, 7, 50])], lambda: ["select_on_page %d" % rnd.randint(0, 5)],
        lambda: ["highlight %d" % rnd.randint(0, 12)], lambda: ["page %d" % rnd.randint(0, 1)],
        lambda: ["commit", "get_commit"], lambda: ["clear"], lambda: ["get_commit"], lambda: ["get_context"], lambda: ["get_status"],
        lambda: ["set_option %s %d" % (rnd.choice(["ascii_mode", "full_shape", "simplification", "ascii_punct", "extended_charset", "verif_x", "verif_x", "verif_y"]), rnd.randint(0, 1))],
        lambda: ["get_option %s" % rnd.choice(["ascii_mode", "full_shape", "simplification", "ascii_punct", "verif_x", "verif_y"])],
        lambda: ["set_property %s v%d" % (rnd.choice(["p1", "p2"]), rnd.randint(0, 99))],
        lambda: ["get_property %s" % rnd.choice(["p1", "p2"])],
        lambda: ["select_schema %s" % rnd.choice(SCHEMAS), "get_schema", "get_status"],
        lambda: ["set_input %s" % "".join(rnd.choice("abcdefghinouz") for _ in range(rnd.randint(1, 8))).encode().hex(), "get_context"],
        lambda: ["get_input"], lambda: ["set_caret %d" % rnd.randint(0, 9), "get_input"],
        lambda: ["simulate %s" % rnd.choice(["ni{space}", "hao{Return}", "zhong{BackSpace}guo", "{Escape}", "a{Left}b"]), "get_context", "get_commit"],
        # spellings that only the third schema's own prism knows (zh->z, n->l): what they yield tells which prism a session got
        lambda: ["simulate %s" % rnd.choice(["zong", "cang", "si", "li", "lihao", "zongguo"]), "get_context", "key 32 0", "get_commit"],
    ]
    return rnd.choice(choices)()


PROBE_READS = ["get_option verif_x", "get_option verif_y", "get_option ascii_mode", "get_property p1", "get_property p2",
               "get_status", "get_schema", "get_input", "get_context", "get_commit"]


def gen_script(rnd, nsess, length):
    """returns list of script lines '<logical> <op...>'"""
    lines = []
    live = {}
    ever = set()
    while len(lines) < length:
        lg = rnd.randint(1, nsess)
        if not live.get(lg):
            r = rnd.random()
            if r < 0.55:
                lines.append("%d create" % lg)
                live[lg] = True
                ever.add(lg)
                # creation window: what is persisted may change between a session's creation and its first call
                # (the session must keep seeing the settings persisted WHEN IT WAS CREATED)
                others = sorted(k for k, v in live.items() if v and k != lg)
                if others and rnd.random() < 0.5:
                    o = rnd.choice(others)
                    lines.append("%d select_schema %s" % (o, rnd.choice(SCHEMAS)))
                    if rnd.random() < 0.5:
                        lines.append("%d set_option %s %d" % (o, rnd.choice(["ascii_mode", "full_shape", "ascii_punct", "simplification"]), rnd.randint(0, 1)))
                    for op in ("get_schema", "get_status", "key 110 0", "key 105 0", "get_context"):
                        lines.append("%d %s" % (lg, op))
            elif r < 0.85:
                # dead or never-issued id: every call must be rejected
                for op in gen_ops_live(rnd)[:3]:
                    lines.append("%d %s" % (lg, op))
            elif r < 0.95:
                lines.append("%d %s" % (lg, rnd.choice(["find", "destroy"])))
            else:
                lines.append("%d find" % lg)
        else:
            r = rnd.random()
            if r < 0.06:
                # round 3: a session may be destroyed with state left behind (unread commit text, a composition in progress,
                # options, properties, an open paired quote); a session created right afterwards must look brand new - its
                # first reads are all a client needs to see what leaked
                if rnd.random() < 0.6:
                    for op in rnd.sample(["simulate ni{space}", "simulate hao{space}", "key 110 0", "set_option verif_x 1", "set_option ascii_punct 1",
                                          "set_property p1 left", "key 34 0", "set_option full_shape 1", "simulate zhong"], rnd.randint(1, 4)):
                        lines.append("%d %s" % (lg, op))
                # round 4: what the session typed last is remembered in its commit history (a number typed while idle or in ascii
                # mode makes the next , . : ' a digit separator); a session created afterwards must not inherit that memory
                number_left = rnd.random() < 0.5
                if number_left:
                    lines.append("%d clear" % lg)
                    for op in rnd.choice([["key 51 0"], ["key 49 0", "key 50 0"], ["set_option ascii_mode 1", "key 109 0", "key 112 0", "key 51 0"],
                                          ["simulate ni{space}", "key 55 0"]]):
                        lines.append("%d %s" % (lg, op))
                lines.append("%d destroy" % lg)
                live[lg] = False
                if rnd.random() < 0.7:
                    free = [k for k in range(1, nsess + 1) if not live.get(k)]
                    nk = rnd.choice(free)
                    lines.append("%d create" % nk)
                    live[nk] = True
                    ever.add(nk)
                    for op in PROBE_READS:
                        lines.append("%d %s" % (nk, op))
                    if number_left or rnd.random() < 0.3:
                        for op in ("key %d 0" % rnd.choice([46, 44, 58, 39]), "get_context", "get_commit", "key 97 0", "get_context"):
                            lines.append("%d %s" % (nk, op))
            elif r < 0.10:
                lines.append("%d find" % lg)
            elif r < 0.115:
                # ids handed out after a clean-up must still be distinct from each other and from live ones
                victims = sorted(k for k, v in live.items() if v)
                if victims and rnd.random() < 0.7:
                    v = rnd.choice(victims)
                    lines.append("%d destroy" % v)
                    live[v] = False
                lines.append("0 cleanup_all")
                live = {}
                for k in range(1, nsess + 1):
                    if rnd.random() < 0.8:
                        lines.append("%d create" % k)
                        live[k] = True
                        for op in ("key 110 0", "key 105 0", "get_context"):
                            lines.append("%d %s" % (k, op))
                for k in sorted(k for k, v in live.items() if v):
                    lines.append("%d get_context" % k)
            elif r < 0.16:
                # let time pass and sweep: sessions idle for more than 300 s are recycled, the others stay
                lines.append("0 advance %d" % rnd.choice([10, 150, 200, 290, 301, 400]))
                if rnd.random() < 0.7:
                    for k in sorted(k for k, v in live.items() if v):
                        if rnd.random() < 0.5:
                            lines.append("%d %s" % (k, rnd.choice(["get_status", "find", "key 97 0"])))
                    lines.append("0 advance %d" % rnd.choice([10, 150, 200, 290, 301]))
                lines.append("0 cleanup_stale")
                before = sorted(k for k, v in live.items() if v)
                live = {k: v for k, v in simulate(lines)[1].items()}
                # every swept id must be rejected at once - ask before any other session is looked up
                swept = [k for k in before if not live.get(k)]
                rnd.shuffle(swept)
                for k in swept:
                    lines.append("%d %s" % (k, rnd.choice(["get_status", "find", "key 97 0", "get_context"])))
                for k in swept + [k for k in before if live.get(k)]:
                    lines.append("%d find" % k)
            else:
                for op in gen_ops_live(rnd):
                    lines.append("%d %s" % (lg, op))
                # stateful punctuation (paired quotes, alternating symbols): the same key pressed in turn by several sessions
                if rnd.random() < 0.12:
                    key = rnd.choice([34, 39, 34, 91, 60])
                    for k in sorted(k for k, v in live.items() if v):
                        for _ in range(rnd.choice([1, 1, 2, 3])):
                            lines.append("%d key %d 0" % (k, key))
                            lines.append("%d get_commit" % k)
                # round 4: sessions on different schemas share dictionary objects (luna_pinyin's reverse lookup reads cangjie5's
                # prism and table; luna_zcs shares luna_pinyin's table): one session looks a code up one way, another session
                # types the same code its own way and pages deep into the list
                others = sorted(k for k, v in live.items() if v and k != lg)
                if others and rnd.random() < 0.10:
                    o = rnd.choice(others)
                    code = rnd.choice(["o", "a", "on", "hq", "ab", "m", "yk"])
                    lines.append("%d select_schema luna_pinyin" % lg)
                    lines.append("%d select_schema cangjie5" % o)
                    lines += ["%d clear" % lg, "%d simulate `%s" % (lg, code), "%d get_context" % lg]
                    for _ in range(rnd.choice([0, 1, 3])):
                        lines += ["%d key %d 0" % (lg, XK["Page_Down"]), "%d get_context" % lg]
                    lines += ["%d clear" % o, "%d simulate %s" % (o, code), "%d get_context" % o]
                    for _ in range(rnd.choice([1, 2, 4, 8])):
                        lines += ["%d key %d 0" % (o, XK["Page_Down"]), "%d get_context" % o]
                    lines += ["%d clear" % o, "%d clear" % lg]
                # let the OTHER live sessions look at everything a leak could show up in
                if rnd.random() < 0.35:
                    for other in sorted(k for k, v in live.items() if v and k != lg):
                        for op in PROBE_READS:
                            lines.append("%d %s" % (other, op))
    return lines


def gen_pattern_script(rnd, which):
    """short scripts aimed at one sharing channel each (round 4): 'history' - a destroyed session's commit history (a number typed
    last) must not reach the session created next; 'dict' - sessions on different schemas share prism/table objects (reverse lookup,
    a schema with its own prism over another's table): deep paging after another session's lookup of the same code"""
    lines = []
    if which == "saved-option":
        # round 5: an option saved by someone else AFTER a session was created must not reach that session, whatever it does later
        # (schema changes re-run the engine's option initialisation)
        for rounds in range(rnd.randint(1, 3)):
            opt = rnd.choice(["full_shape", "ascii_punct", "simplification", "extended_charset"])
            lines += ["1 create", "1 get_option %s" % opt, "0 persist %s %d" % (opt, rnd.randint(0, 1) if rounds else 1)]
            lines += ["1 select_schema %s" % rnd.choice(SCHEMAS), "1 get_option %s" % opt, "1 get_status", "1 key 32 0", "1 get_commit",
                      "1 simulate ni{space}", "1 get_commit", "1 key 46 0", "1 get_commit", "1 destroy"]
        return lines
    if which == "idle-create":
        # round 5: a session that receives no call for a long time stays as it is until a sweep is asked for: other clients'
        # create_session calls in between change nothing for it
        lines += ["1 create", "1 simulate ni", "1 get_context", "0 advance %d" % rnd.choice([301, 360, 900])]
        for k in range(rnd.randint(1, 3)):
            lines += ["%d create" % (2 + k), "%d key 97 0" % (2 + k)]
        lines += ["1 find", "1 get_context", "1 key 32 0", "1 get_commit", "1 get_status", "1 destroy"]
        return lines
    if which == "history":
        for rounds in range(rnd.randint(2, 4)):
            a, b = rnd.sample([1, 2, 3], 2)
            lines.append("%d create" % a)
            if rnd.random() < 0.5:
                lines.append("%d select_schema %s" % (a, rnd.choice(SCHEMAS)))
            for op in rnd.choice([["key 51 0"], ["key 49 0", "key 50 0"], ["set_option ascii_mode 1", "key 109 0", "key 112 0", "key 51 0"],
                                  ["simulate ni{space}", "get_commit", "key 55 0"], ["simulate ni{space}"], []]):
                lines.append("%d %s" % (a, op))
            lines.append("%d destroy" % a)
            lines.append("%d create" % b)
            for op in ("key %d 0" % rnd.choice([46, 44, 58, 39]), "get_context", "get_commit", "key 97 0", "get_context", "get_commit"):
                lines.append("%d %s" % (b, op))
            lines.append("%d destroy" % b)
    else:
        lines += ["1 create", "2 create", "1 select_schema %s" % rnd.choice(["luna_pinyin", "luna_zcs"]), "2 select_schema cangjie5"]
        for rounds in range(rnd.randint(2, 4)):
            code = rnd.choice(["o", "a", "on", "hq", "ab", "m", "yk", "e"])
            lines += ["1 clear", "1 simulate `%s" % code, "1 get_context"]
            for _ in range(rnd.choice([0, 1, 3])):
                lines += ["1 key %d 0" % XK["Page_Down"], "1 get_context"]
            lines += ["2 clear", "2 simulate %s" % code, "2 get_context"]
            for _ in range(rnd.choice([2, 4, 8])):
                lines += ["2 key %d 0" % XK["Page_Down"], "2 get_context"]
        lines += ["1 clear", "2 clear"]
    return lines


def simulate(lines):
    """mirror of the service model on logical sessions: returns (per-line incarnation key or None, final liveness)"""
    now, stamp, cur, count, keys = 0, {}, {}, {}, []
    for l in lines:
        lg, op = l.split(" ", 1)
        lg = int(lg)
        name = op.split()[0]
        key = None
        if name == "cleanup_all":
            cur = {}
        elif name == "advance":
            now += int(op.split()[1])
        elif name == "cleanup_stale":
            for k in list(cur):
                if stamp[k] < now - 300:
                    del cur[k]
        elif name == "create":
            count[lg] = count.get(lg, 0) + 1
            cur[lg] = (lg, count[lg])
            stamp[lg] = now
            key = cur[lg]
        elif lg in cur:
            key = cur[lg]
            if name == "destroy":
                del cur[lg]
            else:
                stamp[lg] = now          # GetSession activates (find_session included)
        keys.append(key)
    return keys, {k: True for k in cur}


def incarnations(lines):
    """split a script into incarnations: {(logical, n): [ops from create to destroy/sweep/end]}"""
    inc = {}
    for l, key in zip(lines, simulate(lines)[0]):
        if key is not None:
            inc.setdefault(key, []).append(l.split(" ", 1)[1])
    return inc


def run_harness(exe, tmpl, work, name, lines, user_yaml=None):
    d = os.path.join(work, name)
    os.makedirs(d, exist_ok=True)
    user = os.path.join(d, "user")
    os.makedirs(user, exist_ok=True)
    with open(os.path.join(user, "user.yaml"), "w") as f:
        f.write(open(user_yaml or os.path.join(tmpl, "user", "user.yaml")).read())
    script = os.path.join(d, "script.txt")
    with open(script, "w") as f:
        f.write("\n".join(lines) + "\n")
    rc, out, err = vlib.sh2([exe, os.path.join(tmpl, "shared"), user, os.path.join(tmpl, "user", "build"), script], timeout=600,
                            env={"ASAN_OPTIONS": "detect_leaks=0", "UBSAN_OPTIONS": "print_stacktrace=1"})
    rows = []
    if "NOT-INTERPOSED" in out:
        raise RuntimeError("the harness's virtual clock is not used by librime (time() not interposed)")
    for l in out.split("\n"):
        if l.count("|") >= 5:
            f = l.split("|", 5)
            rows.append(dict(lineno=int(f[0]), lg=int(f[1]), op=f[2], canon=f[3], live=f[4], obs=f[5]))
    return rc, rows, err


def run(ctx):
    rows_api = session_api.generate()
    # the cone of Properties_C16.v (Svc/EngInstance over Eng) reads the generated key maps and engine facts too
    import keymaps, eng_facts
    keymaps.generate()
    eng_facts.generate()
    ctx.coverage["translated_session_functions"] = [{"fn": n, "kind": k, "why": w} for n, k, w in rows_api]
    ctx.coverage["trusted_base"] = [
        "Coq 8.16.1 kernel + vm_compute (sweep over the generated function list); no native_compute",
        "translator gen/session_api.py (clang -ast-dump=json of src/rime_api.cc; classifies each session function, refuses with Unrecognised)",
        "modelling assumption (validated by the interleaved-vs-solo-vs-replay runs, not proved): a session's step function reads nothing but its own state, the deployed data and the settings persisted at its creation",
        "extraction: ExtrOcamlBasic only; ocaml/common/glue.ml + ocaml/c16/driver.ml are conversion glue",
        "harness/c16/c16.cc on the ASan+UBSan build of /repo's working tree",
    ]
    ctx.assumptions += [
        "learning disabled (enable_user_dict: false patched into both stock schemas), schema-switcher menu and Shift/Control tap timing avoided by the generators (the property excludes them)",
        "session ids are addresses handed out by the allocator: an input of the model (Create i)",
    ]
    res = vlib.proof_stage(ctx)
    proof_ok = res["ok"]
    okm, logm = vlib.coq_make(["Svc/Toy.vo"])
    if not okm:
        ctx.violation("model-does-not-compile", "Svc/SvcModel.v / Toy.v does not compile", {"log": logm[-4000:]}, found_input=False)
        return
    rmodel = vlib.ocaml_build("c16", "Extract_C16.v", os.path.join(vlib.VERIF, "ocaml", "c16", "driver.ml"))
    b = vlib.librime_build("asan")
    exe = vlib.cxx_build(os.path.join(vlib.WORK, "bin", "c16"), [os.path.join(vlib.VERIF, "harness", "c16", "c16.cc")],
                         flags="-I%s/src" % b, libs="-L%s/lib -lrime -Wl,-rpath,%s/lib" % (b, b))
    tmpl = vlib.stock_workspace("asan", extra_shared=CUSTOM, name="nolearn")
    work = ctx.scratch("c16")
    rnd = random.Random(ctx.seed * 7919 + 16)
    nscripts, length = (10, 90) if ctx.tier == "quick" else (60, 160)
    scripts = [gen_script(rnd, rnd.randint(2, 5), length) for _ in range(nscripts)]
    npat = 3 if ctx.tier == "quick" else 20
    scripts += [gen_pattern_script(rnd, w) for w in ("history", "dict", "saved-option", "idle-create") for _ in range(npat)]
    ctx.coverage["pattern_scripts"] = {"inherited_commit_history": npat, "shared_dictionary_objects": npat,
                                       "option_saved_after_creation": npat, "idle_session_and_foreign_creates": npat}
    # corpus first
    cdir = os.path.join(vlib.VERIF, "corpus", "C16")
    if os.path.isdir(cdir):
        for f in sorted(os.listdir(cdir)):
            scripts.insert(0, [l for l in open(os.path.join(cdir, f)).read().split("\n") if l.strip()])

    # stage 1: the interleaved run and its replay; stage 2: every incarnation solo, started from the user
    # settings that were persisted when it was created in the interleaved run (snapshot taken by the harness)
    jobs = []
    for si, lines in enumerate(scripts):
        jobs.append(("s%d-inter" % si, lines, None))
        jobs.append(("s%d-replay" % si, lines, None))
    with ThreadPoolExecutor(max_workers=vlib.NPROC) as ex:
        results = dict(zip([j[0] for j in jobs], ex.map(lambda j: run_harness(exe, tmpl, work, j[0], j[1], j[2]), jobs)))
    jobs2 = []
    for si, lines in enumerate(scripts):
        count = {}
        for ln, l in enumerate(lines, 1):
            lg, op = l.split(" ", 1)
            if op == "create":
                count[int(lg)] = count.get(int(lg), 0) + 1
                snap = os.path.join(work, "s%d-inter" % si, "user", "snap", "%d.yaml" % ln)
                ops = incarnations(lines)[(int(lg), count[int(lg)])]
                jobs2.append(("s%d-solo-%s-%d" % (si, lg, count[int(lg)]), ["%s %s" % (lg, o) for o in ops],
                              snap if os.path.exists(snap) else None))
    with ThreadPoolExecutor(max_workers=vlib.NPROC) as ex:
        results.update(zip([j[0] for j in jobs2], ex.map(lambda j: run_harness(exe, tmpl, work, j[0], j[1], j[2]), jobs2)))
    jobs += jobs2

    n_calls = n_dead_calls = n_inc = n_inc_nontrivial = n_diff = 0
    samples = []
    model_feed, model_expect = [], []
    for si, lines in enumerate(scripts):
        rc, rows, err = results["s%d-inter" % si]
        if rc != 0:
            ctx.violation("harness-abort", "the multi-session harness ended abnormally (sanitizer report or crash) rc=%d" % rc,
                          {"script": lines, "stderr": err[-5000:]}, found_input=True)
            continue
        rc2, rows2, _ = results["s%d-replay" % si]
        if [(r["op"], r["canon"], r["live"], r["obs"]) for r in rows] != [(r["op"], r["canon"], r["live"], r["obs"]) for r in rows2]:
            k = next((i for i, (a, b2) in enumerate(zip(rows, rows2)) if (a["op"], a["obs"]) != (b2["op"], b2["obs"])), None)
            ctx.violation("replay-differs", "replaying the same script in a new process gives different observations",
                          {"script": lines, "first_difference_at_line": k, "run1": rows[k] if k is not None else None,
                           "run2": rows2[k] if k is not None else None}, found_input=True)
        # --- per-incarnation transcripts: interleaved vs solo
        inter = {}
        sim_keys = simulate(lines)[0]
        for r in rows:
            key = sim_keys[r["lineno"] - 1]
            if key is not None:
                inter.setdefault(key, []).append((r["op"], "created" if r["op"] == "create" else r["obs"]))
        for key, tr in inter.items():
            n_inc += 1
            if sum(1 for o, _ in tr if o == "key") >= 3:
                n_inc_nontrivial += 1
            rcs, rows_s, errs = results["s%d-solo-%d-%d" % (si, key[0], key[1])]
            solo = [(r["op"], "created" if r["op"] == "create" else r["obs"]) for r in rows_s]
            if solo != tr:
                n_diff += 1
                k = next((i for i, (a, b2) in enumerate(zip(tr, solo)) if a != b2), min(len(tr), len(solo)))
                ctx.violation("interleaved-differs-from-solo",
                              "a session observes something different when other sessions run interleaved with it",
                              {"script": lines, "session": list(key), "op_index": k,
                               "interleaved": tr[k] if k < len(tr) else None, "solo": solo[k] if k < len(solo) else None,
                               "how": "run harness/c16 on the script (all sessions) and on the lines of this session alone in a fresh process"},
                              found_input=True)
        # --- accept/reject pattern vs the service model, and rejected observations
        live_canon = {}
        for r in rows:
            if r["obs"] == "skipped-aliased":
                continue
            op = r["op"]
            # forget logical sessions that are no longer live
            if op in ("cleanup_all",):
                live_canon = {}
            if op == "destroy":
                live_canon.pop(r["lg"], None)
            if op == "cleanup_stale":
                sim_after = simulate(lines[:r["lineno"]])[1]
                live_canon = {k: v for k, v in live_canon.items() if sim_after.get(k)}
            if op in ("persist", "tick", "handler"):
                continue      # harness-level inputs (another client's saved option, the virtual steady clock): no service call
            if op == "cleanup_all":
                model_feed.append("cleanup")
                model_expect.append((si, r, "unit"))
            elif op == "advance":
                model_feed.append("advance %s" % lines[r["lineno"] - 1].split()[2])
                model_expect.append((si, r, "unit"))
            elif op == "cleanup_stale":
                model_feed.append("cleanup_stale")
                model_expect.append((si, r, "unit"))
            elif op == "create":
                model_feed.append("create %s" % r["canon"])
                model_expect.append((si, r, "created %s" % r["canon"]))
                # the property's own clause: ids of live sessions are pairwise distinct
                holders = [lg2 for lg2, c2 in live_canon.items() if c2 == r["canon"] and lg2 != r["lg"]]
                if r["canon"] != "0" and holders:
                    ctx.violation("live-ids-not-distinct", "create_session returned the id of a session that is still live",
                                  {"script": lines, "line": r["lineno"], "id": r["canon"], "also_held_by_logical_session": holders},
                                  found_input=True)
                live_canon[r["lg"]] = r["canon"]
            elif op == "destroy":
                model_feed.append("destroy %s" % r["canon"])
                model_expect.append((si, r, r["obs"]))
            elif op == "find":
                model_feed.append("find %s" % r["canon"])
                model_expect.append((si, r, r["obs"]))
            else:
                n_calls += 1
                model_feed.append("call %s" % r["canon"])
                model_expect.append((si, r, "acc" if r["live"] == "1" else "rej"))
                if r["live"] == "0":
                    n_dead_calls += 1
                    if r["obs"] != REJECTED.get(op):
                        ctx.violation("dead-id-not-rejected:" + op, "a call on a dead or never-issued session id is not rejected",
                                      {"script": lines, "line": r["lineno"], "op": op, "observed": r["obs"], "expected": REJECTED.get(op)},
                                      found_input=True)
        model_feed.append("end")
        if len(samples) < 3:
            samples.append({"script_head": lines[:25], "sessions": len({l.split()[0] for l in lines}), "lines": len(lines)})
    rcm, mout, merr = vlib.sh2([rmodel], stdin="\n".join(model_feed) + "\n", timeout=600)
    mlines = [l for l in mout.split("\n") if l and l != "end"]
    nm = 0
    if len(mlines) != len(model_expect):
        ctx.violation("correspondence:c16", "model runner output length differs", {"model": len(mlines), "expected": len(model_expect), "stderr": merr[-2000:]}, found_input=False)
    else:
        for (si, r, exp), got in zip(model_expect, mlines):
            if exp != got:
                nm += 1
                if nm == 1:
                    ctx.violation("service-bookkeeping:" + r["op"],
                                  "life cycle / liveness of a session id differs from the service model (create/destroy/find result or a call accepted on an id the model says is dead)",
                                  {"script": scripts[si], "line": r["lineno"], "op": r["op"], "implementation": exp, "model": got}, found_input=True)
    ctx.coverage.update({
        "evaluations": len(jobs), "scripts": len(scripts), "api_calls_checked": n_calls, "calls_on_dead_ids": n_dead_calls,
        "session_incarnations": n_inc, "distinct_nontrivial": n_inc_nontrivial,
        "rule": "scripts of %d..%d lines over 2..5 logical sessions (create/destroy/re-create, cleanup_all, calls on dead and never-issued ids, "
                "typing, candidate selection, commit, options, properties, schema switch via API, input/caret edits, reads) on the deployed stock "
                "schemas; each script runs interleaved, replayed, and every session incarnation solo in a fresh process; non-trivial = an "
                "incarnation with at least 3 key events" % (length, length + 8),
        "samples": samples, "interleaved_vs_solo_differences": n_diff, "model_mismatches": nm, "exhaustive": False,
        "mutation_drills": MUTATION_DRILLS,
    })
    if not proof_ok and not ctx.violations:
        ctx.violation("proof:Properties_C16", "a proof obligation of Properties_C16.v no longer checks",
                      {"failed": res["failed"], "forbidden": res.get("forbidden"),
                       "unrecognised_functions": [(n, w) for n, k, w in rows_api if k == "Unrecognised"],
                       "log_tail": res["log"][-3000:] + ((res["props"] or {}).get("log", "")[-3000:])}, found_input=False)


MUTATION_DRILLS = [
    {"change": "seeded C16-1..4 (see /verif/seeded/C16-*/meta.json): lazy engine creation; GetSession cache surviving the stale sweep; "
               "punctuator pair state in a process-wide static; sequential ids with a free list surviving cleanup_all",
     "result": "each first missed, each detected with a concrete script after the generator/oracle/model strengthening recorded in the meta files "
               "(creation-window pattern; clock + CleanupStale in the model and virtual clock in the harness; stateful-punctuation pattern; "
               "live-ids-not-distinct oracle + destroy/cleanup_all/create pattern)"},
    {"change": "Service::GetSession keeps a static (last_id, last_session) fast path that is not invalidated by DestroySession",
     "compiles": True, "ran": "VERIF_REPO=<scratch worktree> VERIF_CACHE=<scratch> bin/check C16 quick",
     "result": "VIOLATION key=service-bookkeeping:key (a key event accepted on an id the model says is dead), concrete script"},
    {"change": "Context::get_option falls back to a process-wide static map of the most recent option values (set by any session)",
     "compiles": True, "ran": "same",
     "result": "first MISSED (generator rarely read an option in a session that had not set it); after adding the cross-session probe "
               "reads (PROBE_READS) to the generator: VIOLATION key=interleaved-differs-from-solo (get_option ret 1 interleaved vs ret 0 solo)"},
]

MANIFEST = {
    "category": "proof",
    "technique": "Coq theorems over a service-layer model generic in the session engine + clang-AST translator of the API guards + multi-session interleaved/solo/replay differential runs",
    "text": "Properties_C16.v proves for every per-session engine (all types and step functions) and every call history: a call changes no "
            "other session (frame); under any interleaving with other sessions' calls, creations and destructions a session's observations "
            "equal its solo run from the settings persisted at its creation; dead or never-issued ids are rejected by every call until "
            "issued again; live ids are pairwise distinct.  The sweep C16_api_functions_guarded ties the model's Call shape to every "
            "session function of the current src/rime_api.cc.  That the real engine has no hidden cross-session state is validated by running "
            "generated multi-session scripts interleaved, solo and replayed on the real library.",
    "note": "Trusted: Coq kernel + vm_compute; gen/session_api.py; the modelling assumption that a session step reads only its own state, "
            "deployed data and the settings persisted at creation (tested, not proved: partial on this point); ExtrOcamlBasic extraction and glue. "
            "Learning off, switcher menu and modifier tap timing excluded as the property states.",
}
