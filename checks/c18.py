"""C18 - config trees survive save and load; getters read back what setters wrote.

proof: Properties_C18.v (paths, typed access, scalar codec, tree round trip) over the
       Gallina port of config_data.cc / config_types.cc / config_cow_ref.h and of the
       part of yaml-cpp 0.7 that EmitYaml exercises (coq/Cfg/*.v);
tie:   correspondence - the extracted model and the real code (ASan+UBSan build of
       /repo's working tree: rime::ConfigData::SaveToStream/LoadFromStream and the public
       config_* API) are fed the same generated trees and API histories; emitted bytes,
       reloaded trees, every API result and the tree after every call are diffed, and each
       loader is also run on the other side's bytes;
search: the property's own oracles on the implementation's observations (reloaded tree =
       tree without null entries; get-after-set; other entries unchanged).
"""
import os
import random
import re

import vlib
import c18file

LEVEL = "proof"

# ----------------------------------------------------------------------------
# tree syntax shared with ocaml/c18/driver.ml and harness/c18/c18.cc
#   N | S<hex>; | L(t,..) | M(<hexkey>=t,..)          python: None | bytes | list | dict(bytes->tree)
# ----------------------------------------------------------------------------

def tree_str(t):
    if t is None:
        return "N"
    if isinstance(t, bytes):
        return "S" + t.hex() + ";"
    if isinstance(t, list):
        return "L(" + ",".join(tree_str(x) for x in t) + ")"
    return "M(" + ",".join(k.hex() + "=" + tree_str(v) for k, v in sorted(t.items())) + ")"


def parse_tree(s):
    pos = [0]

    def go():
        c = s[pos[0]]
        if c == "N":
            pos[0] += 1
            return None
        if c == "S":
            j = s.index(";", pos[0])
            h = s[pos[0] + 1:j]
            pos[0] = j + 1
            return bytes.fromhex(h)
        if c == "L":
            pos[0] += 2
            out = []
            while s[pos[0]] != ")":
                out.append(go())
                if s[pos[0]] == ",":
                    pos[0] += 1
            pos[0] += 1
            return out
        if c == "M":
            pos[0] += 2
            out = {}
            while s[pos[0]] != ")":
                j = s.index("=", pos[0])
                k = bytes.fromhex(s[pos[0]:j])
                pos[0] = j + 1
                out[k] = go()
                if s[pos[0]] == ",":
                    pos[0] += 1
            pos[0] += 1
            return out
        raise ValueError("bad tree " + s[:40])
    return go()


def scalars_of(t, keys=True):
    if isinstance(t, bytes):
        yield ("v", t)
    elif isinstance(t, list):
        for x in t:
            yield from scalars_of(t=x, keys=keys)
    elif isinstance(t, dict):
        for k, v in t.items():
            if v is not None and keys:
                yield ("k", k)
            yield from scalars_of(v, keys)


def depth_of(t):
    if isinstance(t, list):
        return 1 + max([depth_of(x) for x in t] + [0])
    if isinstance(t, dict):
        return 1 + max([depth_of(x) for x in t.values()] + [0])
    return 0


# ----------------------------------------------------------------------------
# the property's domain of scalars
# ----------------------------------------------------------------------------

def is_nonchar(cp):
    return 0xFDD0 <= cp <= 0xFDEF or (cp & 0xFFFE) == 0xFFFE


def scalar_domain(s):
    """'in' (the property's stated domain), 'nonchar' (valid UTF-8 holding a Unicode noncharacter:
    in the domain as worded, set apart because yaml-cpp replaces it - known finding), or
    'out:<why>'."""
    try:
        u = s.decode("utf-8")
    except UnicodeDecodeError:
        return "out:invalid-utf8"
    if b"\n" in s or b"\r" in s:
        # "ends in exactly one line break": the text ends in LF, optionally preceded by one CR (a final
        # CR LF is ONE break), and what precedes that final break does not end in LF or CR
        if not s.endswith(b"\n"):
            return "out:no-trailing-break"
        core = s[:-1]
        if core.endswith(b"\r"):
            core = core[:-1]
        if core.endswith((b"\n", b"\r")):
            return "out:several-trailing-breaks"
    if any(is_nonchar(ord(ch)) for ch in u):
        return "nonchar"
    return "in"


PUNCT = "!\"#$%&'()*+,-./:;<=>?@[\\]^_`{|}~"


def scalar_corpus(rng, thorough):
    """(class, bytes) pairs aimed at the case splits of EmitScalar / ComputeStringFormat /
    the escaper / the literal scanner."""
    c = []

    def add(cls, *items):
        for x in items:
            c.append((cls, x.encode("utf-8") if isinstance(x, str) else x))
    add("empty", "")
    add("null-like", "~", "null", "Null", "NULL", "nULL", "null ", "nulls", "~~")
    add("bool-like", "true", "false", "True", "FALSE", "yes", "no", "Yes", "NO", "on", "off", "y", "n")
    add("number-like", "0", "1", "-1", "007", "0x1F", "0o17", "1e3", "1.5", ".5", "-.inf", ".nan", ".NaN", "1_000",
        "+", "-", "+1", "0.0", "12:30:45", "2001-12-14", "1.", "._", "a.b_c.D9")
    for p in PUNCT:
        add("punct", p, p + "a", "a" + p + "b", "a" + p, p + " a", "a " + p, "a" + p + " b", "a " + p + "b", p + p)
    add("blank", " ", "  ", " a", "a ", " a ", "\t", "\ta", "a\t", "a\tb", "a  b")
    add("indicator", "- a", "-", "--", "---", "...", "....", ". . .", "..", "? a", "?", ": a", ":", "a: b", "a:b", "a :b",
        "a #b", "a# b", "#a", "[a]", "[", "]", "{a: b}", "{", "}", "a, b", ",", "&a", "*a", "!a", "!!str a", "|", ">", "|-", "|+2",
        "%a", "%YAML 1.2", "@a", "`a", "--- a", "... a", "a ...", "-a", "- - a", "?a", "a?", "a-", "key: |")
    add("quote", '"', "'", '"a"', "'a'", 'a"b', "a'b", '""', "''", "\\", "a\\b", "\\n", "\\x41", 'a\\"', "\\\\", '\\"', "'\"", "a\\")
    for i in range(32):
        if i in (10, 13):
            continue
        add("c0-control", bytes([i]), b"a" + bytes([i]) + b"b", bytes([i]) + b"a", b"a" + bytes([i]))
    add("del", "\x7f", "a\x7fb")
    for cp in (0x80, 0x85, 0x9f, 0xa0, 0xa1, 0x2028, 0x2029, 0xfeff, 0xfffd, 0x7ff, 0x800, 0xd7ff, 0xe000, 0xfdcf, 0xfdf0,
               0x10000, 0x1f600, 0x10fffd, 0xe9, 0x4e2d):
        ch = chr(cp)
        add("non-ascii", ch, ch + "a", "a" + ch + "b", "a" + ch)
    add("non-ascii", "\u4e2d\u6587", "caf\u00e9", "\u00e9\u00e8 \u00ea", "\U0001f600\U0001f601", "a\u00e9\u4e2d\U0001f600z", "\u00e9: \u4e2d", "- \u4e2d")
    add("multi-line", "a\n", "a\nb\n", " a\n", "\n", "  \n", "\na\n", "a\n\nb\n", "a\n b\n", " a\n b\n", " a\nb\n", "a\n\tb\n", "\ta\n",
        "a \n", "a\n...\n", "a\n---\nb\n", "...\n", "---\n", "# c\n", "a\n# c\n", "- a\n- b\n", "k: v\n", "a\n  \nb\n", "  a\n b\nc\n",
        "x" * 1500 + "\n", "a\x01b\n", "a\x04b\n", "\x04\n", "a\x7fb\n", "a\x1bb\n", "\u00e9\n\u4e2d\n", "\t\n", "a\n\t\n", "|\n", ">\n", '"\n', "a\\\n",
        "a\n \n", "a:\n  b\n", "a\n  b\n c\n", "\n \n", "\n\ta\n", "\n a\n", "a\u2028b\n", "a\u0085b\n", "\ufeffa\n", "a b\nc d\n", "a\n" * 40)
    add("multi-line-nul", b"a\x00b\n", b"a\x00z\n", b"\x00\n")
    add("long", "a" * 1024, "a" * 1025, "-" * 1022, "-" * 1023, "\x01" * 256, "a b" * 400)
    add("out:breaks", "a\nb", "\na", "a\n\n", "\n\n", "a\nb\n\n\n", " a\n\n", "a\n ", "a\nb ", "a\n\n b")
    add("cr-line-breaks", "one\r\n", "first line\r\nsecond line\r\n", "mixed\nendings\r\n", "a\r\n", "a\r\nb\r\n", "\r\n", " a\r\n",
        "a\rb\n", "a\rb\r\n", "a\r\nb\n", "a\r\n b\r\n", "\ta\r\n", "a\r\n\tb\r\n", "\ra\n", "a \r\n", "k: v\r\n", "- a\r\n- b\r\n",
        "\u4e2d\r\n\u6587\r\n", "a\r\n\r\nb\r\n", "a\r\rb\n", "# c\r\n", "a\x01b\r\n", "x" * 300 + "\r\n")
    add("out:cr", "a\rb", "\r", "a\n\r", "a\r", "a\r\r\n", "a\n\r\n", "a\r\n\r\n", "a\r\n\n", "a\r\nb", "\r\r")
    add("out:invalid-utf8", b"\x80", b"\xc3", b"\xc3(", b"\xe2\x82", b"\xe2\x82(", b"\xf0\x9f\x98", b"\xff", b"\xed\xa0\x80", b"\xc0\xaf",
        b"a\xffb", b"\xf4\x90\x80\x80", b"\xf8\x88\x80\x80\x80", b"\xe0\x80\xaf", b"a\xe2\x82", b"\xff\n", b"a\n\xc3\n", b"\xfe\xff")
    add("nonchar", "\ufffe", "\uffff", "\ufdd0", "\ufdef", "\U0001fffe", "\U0010ffff", "a\ufffeb", "\uffff\n")
    # random compositions of the same pieces
    pieces = ["a", "b", "Z", "9", "_", ".", " ", "  ", "\t", "-", ":", "#", "?", ",", "[", "]", "{", "}", "&", "*", "!", "|", ">", "'", '"',
              "%", "@", "`", "\\", "\n", "\n", "\r\n", "\r", "\x01", "\x1b", "\x7f", "\u0085", "\u00a0", "\u2028", "\ufeff", "\u00e9", "\u4e2d", "\U0001f600",
              "null", "~", "true", "0x1F", "- ", ": ", " #", "...", "---"]
    n = 6000 if thorough else 400
    for _ in range(n):
        k = rng.randint(1, 8)
        s = "".join(rng.choice(pieces) for _ in range(k))
        if ("\n" in s or "\r" in s) and rng.random() < 0.7:
            s = s.rstrip("\r\n") + rng.choice(["\n", "\n", "\r\n"])
        c.append(("random", s.encode("utf-8")))
    # de-duplicate keeping the first class
    seen, out = set(), []
    for cls, b in c:
        if b not in seen:
            seen.add(b)
            out.append((cls, b))
    return out


def failing_class(s, as_key):
    """names the input class of a scalar on which the round trip failed (the known_findings key)"""
    d = scalar_domain(s)
    if d == "nonchar":
        return "noncharacter-code-point"
    if as_key and len(s) >= 256:
        return "map-key-of-256-bytes-or-more"
    if b"\r" in s:
        return "multi-line:carriage-return"
    if b"\n" in s:
        first = s.split(b"\n", 1)[0]
        if first == b"" or first[:1] == b" ":
            return "multi-line:first-line-empty-or-starting-with-blank"
        if any(ch < 32 and ch not in (9, 10) for ch in s):
            return "multi-line:control-character"
        return "multi-line:other"
    if s == b"...":
        return "plain:document-end-marker"
    return "single-line"


# ----------------------------------------------------------------------------
# trees
# ----------------------------------------------------------------------------

def structured_trees(s):
    """the contexts a scalar can stand in: root, block map value, block sequence entry, map key
    (simple and long form), flow sequence/map at depth >= 3, key in a flow map"""
    k = b"k"
    yield "root", s
    yield "block-map-value", {k: s, b"z": b"1"}
    yield "block-seq-entry", [s, b"x"]
    yield "block-map-key", {s: b"v", b"zz": b"1"}
    yield "nested", {b"a": [{b"f": [s, {s: s, k: s}, [s]], b"g": {s: s, k: [s]}}, s, [s, [s]], {s: {k: s}}], b"b": {b"c": {k: s, s: [s]}}}


def random_tree(rng, pool, keypool, depth, maxdepth):
    r = rng.random()
    if depth >= maxdepth or r < 0.30:
        if rng.random() < 0.08:
            return None
        return rng.choice(pool)
    n = rng.choice([0, 1, 1, 2, 2, 3, 4])
    if r < 0.65:
        return [random_tree(rng, pool, keypool, depth + 1, maxdepth) for _ in range(n)]
    out = {}
    for _ in range(n):
        out[rng.choice(keypool)] = random_tree(rng, pool, keypool, depth + 1, maxdepth)
    return out


def tree_domain(t):
    """'in' / 'nonchar' / 'long-key' / 'out:...' for a whole tree"""
    worst = "in"
    for kind, s in scalars_of(t):
        d = scalar_domain(s)
        if d.startswith("out"):
            return d
        if d == "nonchar":
            worst = "nonchar"
        if kind == "k" and len(s) >= 256 and worst == "in":
            worst = "long-key"
    return worst


# ----------------------------------------------------------------------------
# API histories
# ----------------------------------------------------------------------------
MAPKEYS = ["a", "b", "k1", "x.y", "@", "@ 1", "@-1", "a b", "\u00e9", "last", "next"]
LISTREFS = ["@0", "@1", "@2", "@5", "@next", "@last", "@before 0", "@before 1", "@before 2", "@after 0", "@after 1",
            "@before last", "@after last", "@next 1", "@before", "@after", "@1x", "@abc", "@before1", "@007", "@last1",
            "@after  1", "@+2", "@before +1", "@9", "@12"]
DEGENERATE = ["", "/", "//", "a/", "/a", "a//b", "a/@0/", "/@0"]
STRVALS = ["", "x", "hello world", "0x1F", "0xFFFFFFFF", "0x", "0xZ", "0x1g", " 42", "42abc", "+7", "-0", "2147483647", "2147483648",
           "-2147483648", "-2147483649", "99999999999999999999", "true", "TRUE", "False", "yes", "1.5", "0x10 ", "\uff11", "- a", "a: b",
           "a\nb\n", " a\n", "one\r\n", "a\r\nb\r\n", "a\rb\n", "null", "~", "\t12", "0X1F", "0x7fffffff", "0x80000000", "0x123456789", "1e3", "--1", "+-1", "- 1", "\u00e9"]
INTVALS = [0, 1, -1, 42, 255, 2147483647, -2147483648, 1000000, -99]
# texts for the typed-conversion stream: what GetInt / GetBool / GetDouble make of a string somebody else stored
TYPEDTEXTS = ["010", "0100", "-0012", "08", "09", "0090", "007", "-08", "+08", "00", "-00", "000", "0", "-0", "+0",
              "0X1F", "0x1F", "0x1f", "-0x10", "+0x10", "0x1Fzz", "0x1F ", " 0x10", "0x", "0xg", "0x-1", "0x7FFFFFFF", "0x80000000",
              "0xffffffff", "0x100000000", "0xFFFFFFFFFFFFFFFFFF", "\t12", "\n12", " \t\n 7", "\v\f\r3", "+5", "-5", "+-5", "--5", "5-", "- 5",
              "1e3", "1E3", "0b1", "0b101", "0o17", "017", "1_000", "1,000", "12 34", "123456789012345678901234567890",
              "-123456789012345678901234567890", "2147483647", "2147483648", "-2147483648", "-2147483649", "4294967295", "4294967296",
              ".5", "5.", "-.5", "1.5e2", "  2.25", "3.0abc", "+", "-", "", " ", "abc", "true", "TRUE", "tRuE", "false", "False ", " true",
              "yes", "1", "0", "\uff11\uff12", "12\u00e9"]


def doc_get_int(s):
    """ConfigValue::GetInt as documented: texts starting with "0x" that are hexadecimal to the end are read by
    strtoul(.., 16) into an unsigned int; everything else by std::stoi (white space, sign, DECIMAL digits, the rest
    ignored; no digits or out of int range -> failure).  Returns an int or None."""
    if not s:
        return None
    c = s.split(b"\0")[0]
    if s.startswith(b"0x"):
        m = re.fullmatch(rb"0x([0-9a-fA-F]+)", c)
        if m:
            v = min(int(m.group(1), 16), 2 ** 64 - 1) & 0xFFFFFFFF
            return v - 2 ** 32 if v >= 2 ** 31 else v
    m = re.match(rb"[ \t\n\v\f\r]*([+-]?)([0-9]+)", c)
    if not m:
        return None
    v = int(m.group(2))
    if m.group(1) == b"-":
        v = -v
    return v if -2 ** 31 <= v <= 2 ** 31 - 1 else None


def doc_get_bool(s):
    low = bytes(ch + 32 if 65 <= ch <= 90 else ch for ch in s)
    return True if low == b"true" else False if low == b"false" else None


def doc_get_double(s):
    """std::stod on plain decimal spellings only (None = this oracle does not judge the text)"""
    c = s.split(b"\0")[0]
    m = re.match(rb"[ \t\n\v\f\r]*([+-]?(?:[0-9]+\.?[0-9]*|\.[0-9]+)(?:[eE][+-]?[0-9]+)?)", c)
    if not m or re.match(rb"[ \t\n\v\f\r]*[+-]?0[xX]", c):
        return None
    return float(m.group(1))


def stable_readback(key):
    """the textual path at which the value just written through `key` is read back, or None
    when no fixed text names it (@before last / @after last on a grown list)"""
    if not (len(key) > 1 and key[0] == "@" and key[1].isalnum() and ord(key[1]) < 128):
        return key
    if key.startswith("@next"):
        return "@last"
    if "last" in key and (key.startswith("@before") or key.startswith("@after")):
        return None
    return key


def gen_history(rng, n):
    ops, expect = [], []   # expect: list of (op index of the getter, kind, value) for get-after-set oracle

    def path(allow_degenerate=True):
        if allow_degenerate and rng.random() < 0.04:
            return rng.choice(DEGENERATE)
        k = rng.choice([1, 1, 2, 2, 2, 3, 4])
        ks = []
        for _ in range(k):
            ks.append(rng.choice(LISTREFS) if rng.random() < 0.4 else rng.choice(MAPKEYS[:6] if rng.random() < 0.8 else MAPKEYS))
        return ("/" if rng.random() < 0.1 else "") + "/".join(ks)
    used = []
    for _ in range(n):
        c = rng.choice([0, 0, 0, 1, 2])
        p = rng.choice(used) if used and rng.random() < 0.45 else path()
        r = rng.random()
        hp = p.encode("utf-8").hex()
        if r < 0.42:
            used.append(p)
            keys = [k for k in p.lstrip("/").split("/")] if p not in ("", "/") else []
            rb = [stable_readback(k) for k in keys]
            rbp = None if (None in rb or "" in keys) else "/".join(rb)
            t = rng.random()
            typed_after = None
            if t < 0.4:
                v = rng.choice(TYPEDTEXTS) if rng.random() < 0.5 else rng.choice(STRVALS)
                ops.append("ss:%d:%s:%s" % (c, hp, v.encode("utf-8").hex()))
                kind, val = "gs", "S" + v.encode("utf-8").hex()
                typed_after = v.encode("utf-8")
            elif t < 0.7:
                v = rng.choice(INTVALS) if rng.random() < 0.7 else rng.randint(-2 ** 31, 2 ** 31 - 1)
                ops.append("si:%d:%s:%d" % (c, hp, v))
                kind, val = "gi", "I%d" % v
            elif t < 0.85:
                v = rng.random() < 0.5
                ops.append("sb:%d:%s:%d" % (c, hp, int(v)))
                kind, val = "gb", "F%d" % int(v)
            else:
                x = rng.randint(-2 ** 20, 2 ** 20) / 64.0
                ops.append("sd:%d:%s:%s" % (c, hp, ("%f" % x).encode().hex()))
                kind, val = "gd", x
            if rbp is not None and rng.random() < 0.8:
                seti = len(ops) - 1
                ops.append("%s:%d:%s" % (kind, c, rbp.encode("utf-8").hex()))
                expect.append((len(ops) - 1, seti, kind, val))
                if rbp and rng.random() < 0.3:
                    used.append(rbp)
                # "@before N" names element N afterwards, "@after N" element N+1: read it by plain index as well
                m = re.fullmatch(r"@(before|after) (\d+)", keys[-1]) if keys else None
                if m:
                    canon = "/".join(rb[:-1] + ["@%d" % (int(m.group(2)) + (m.group(1) == "after"))])
                    ops.append("%s:%d:%s" % (kind, c, canon.encode("utf-8").hex()))
                    expect.append((len(ops) - 1, seti, kind, val))
                # values of other types convert as documented or fail cleanly: read the string through the typed getters
                if typed_after is not None and rng.random() < 0.7:
                    rh = rbp.encode("utf-8").hex()
                    di, db, dd = doc_get_int(typed_after), doc_get_bool(typed_after), doc_get_double(typed_after)
                    ops.append("gi:%d:%s" % (c, rh))
                    expect.append((len(ops) - 1, seti, "gi", "I!" if di is None else "I%d" % di))
                    ops.append("gb:%d:%s" % (c, rh))
                    expect.append((len(ops) - 1, seti, "gb", "F!" if db is None else "F%d" % int(db)))
                    if dd is not None:
                        ops.append("gd:%d:%s" % (c, rh))
                        expect.append((len(ops) - 1, seti, "gd", dd))
                    only_map_keys = not any(k.startswith("@") for k in keys)   # null list elements vanish in a save/load cycle
                    if scalar_domain(typed_after) == "in" and only_map_keys and rng.random() < 0.5:     # ... once more after save/load
                        ops.append("sl:%d" % c)
                        ops.append("gi:%d:%s" % (c, rh))
                        expect.append((len(ops) - 1, seti, "gi", "I!" if di is None else "I%d" % di))
        elif r < 0.62:
            ops.append("%s:%d:%s" % (rng.choice(["gs", "gi", "gb", "gd", "ls", "gs", "gi"]), c, hp))
        elif r < 0.70:
            ops.append("%s:%d:%s" % (rng.choice(["il", "im"]), c, hp))
        elif r < 0.80:
            used.append(p)
            ops.append("%s:%d:%s" % (rng.choice(["ml", "mm", "cl"]), c, hp))
        elif r < 0.88:
            ops.append("it:%d:%s:%d" % (c, hp, rng.choice([0, 1, 2])))
        elif r < 0.95:
            ops.append("st:%d:%s:%d" % (c, hp, rng.choice([0, 1, 2])))
        else:
            ops.append("sl:%d" % c)
    return ops, expect


def gen_insert_history(rng):
    """a list built element by element, then writes through every list-reference form whose value DUPLICATES the element at
    the insertion point (plain strings, or maps one level down: list/@before N/id); the expectations come from this
    function's own list model of the documented forms (@before N inserts before element N, @after N before N+1, ...)"""
    ops, expect = [], []
    c = rng.choice([0, 1, 2])
    base = rng.choice(["l", "a/l", "m/k1/l", "x.y"])
    deep = rng.random() < 0.4          # elements are maps {id: v}
    suffix = "/id" if deep else ""

    def hx(p):
        return p.encode("utf-8").hex()
    ops.append("ml:%d:%s" % (c, hx(base)))
    vals = []
    for i in range(rng.randint(0, 4)):
        v = rng.choice(["a", "b", "c", "dup", "x y"])
        ops.append("ss:%d:%s:%s" % (c, hx(base + "/@next" + suffix), hx(v)))
        vals.append(v)
    for _ in range(rng.randint(1, 5)):
        s_ = len(vals)
        form = rng.choice(["before", "after", "before last", "after last", "index", "last", "next"])
        n = rng.randint(0, max(s_, 1))
        if form == "before":
            key, idx, ins = "@before %d" % n, n, True
        elif form == "after":
            key, idx, ins = "@after %d" % n, n + 1, True
        elif form == "before last":
            key, idx, ins = "@before last", max(s_ - 1, 0), True
        elif form == "after last":
            key, idx, ins = "@after last", (s_ if s_ > 0 else 0), True
        elif form == "index":
            key, idx, ins = "@%d" % n, n, False
        elif form == "last":
            key, idx, ins = "@last", max(s_ - 1, 0), False
        else:
            key, idx, ins = "@next", s_, False
        if deep and idx > s_:
            continue       # would need padding with nulls below a map key: keep the model simple
        neighbour = vals[idx] if idx < s_ and vals[idx] is not None else None
        v = neighbour if (neighbour is not None and rng.random() < 0.75) else rng.choice(["a", "b", "new", "dup"])
        ops.append("ss:%d:%s:%s" % (c, hx(base + "/" + key + suffix), hx(v)))
        seti = len(ops) - 1
        while len(vals) < idx:
            vals.append(None)
        if ins:
            vals.insert(idx, v)
        elif idx < len(vals):
            vals[idx] = v
        else:
            vals.append(v)
        ops.append("ls:%d:%s" % (c, hx(base)))
        expect.append((len(ops) - 1, seti, "ls", "Z%d" % len(vals)))
        for j in sorted({idx, min(idx + 1, len(vals) - 1), rng.randrange(len(vals))}):
            ops.append("gs:%d:%s" % (c, hx(base + "/@%d" % j + suffix)))
            expect.append((len(ops) - 1, seti, "gs", "S!" if vals[j] is None else "S" + hx(vals[j])))
        if rng.random() < 0.3:
            ops.append("il:%d:%s" % (c, hx(base)))
    return ops, expect


def list_growth_oracle(op, before, after):
    """documented meaning of the list forms, judged on the implementation's trees: a successful write whose first list
    reference is an insertion form (@before N, @after N, @before last, @after last) grows that list by exactly one and
    shifts the later elements; @N in range and @last do not change the size"""
    f = op.split(":")
    p = bytes.fromhex(f[2]).decode("utf-8")
    if p in ("", "/"):
        return None
    keys = p.lstrip("/").split("/")
    if "" in keys:
        return None
    tb, ta = parse_tree(before), parse_tree(after)
    for i, k in enumerate(keys):
        islist = len(k) > 1 and k[0] == "@" and k[1].isalnum() and ord(k[1]) < 128
        if islist:
            break
        tb = tb.get(k.encode("utf-8")) if isinstance(tb, dict) else None
        ta = ta.get(k.encode("utf-8")) if isinstance(ta, dict) else None
    else:
        return None
    if tb is not None and not isinstance(tb, list):
        return None
    lb = tb or []
    if not isinstance(ta, list):
        return "the node a list reference was written through is not a list afterwards"
    s_ = len(lb)
    m = re.fullmatch(r"@(before|after) (\d+)", k)
    if m:
        idx, ins = int(m.group(2)) + (m.group(1) == "after"), True
    elif k == "@before last":
        idx, ins = max(s_ - 1, 0), True
    elif k == "@after last":
        idx, ins = (s_ if s_ > 0 else 0), True
    elif re.fullmatch(r"@\d+", k):
        idx, ins = int(k[1:]), False
    elif k == "@last":
        idx, ins = max(s_ - 1, 0), False
    elif k == "@next":
        idx, ins = s_, False
    else:
        return None
    if idx > 64:
        return None
    want = max(s_, idx) + 1 if ins else max(s_, idx + 1)
    if len(ta) != want:
        return "list size after a write through %s is %d, documented %d (was %d)" % (k.split(" ")[0] + (" N" if m else ""), len(ta), want, s_)
    if ins and idx <= s_ and (ta[:idx] != lb[:idx] or ta[idx + 1:] != lb[idx:]):
        return "an insertion did not shift the later list elements by one"
    return None


# ----------------------------------------------------------------------------
def run_both(ctx, rmodel, exe, lines, tag):
    data = "\n".join(lines) + "\n"
    env = {"ASAN_OPTIONS": "detect_leaks=0:abort_on_error=0", "UBSAN_OPTIONS": "print_stacktrace=1"}
    rc, out, err = vlib.sh2([exe], stdin=data, timeout=1500, env=env)
    il = out.split("\n")
    if il and il[-1] == "":
        il.pop()
    if rc != 0 or len(il) != len(lines):
        last = lines[min(len(il), len(lines) - 1)]
        ctx.violation("harness-abort:" + tag, "the real code ended abnormally on stream %s (sanitizer report, exception or crash) rc=%d" % (tag, rc),
                      {"case": last, "stderr": err[-6000:], "cmd": "echo '<case>' | %s" % exe}, found_input=True)
        il += ["ABORT"] * (len(lines) - len(il))
    rc2, mout, merr = vlib.sh2([rmodel], stdin=data, timeout=1500)
    ml = mout.split("\n")
    if ml and ml[-1] == "":
        ml.pop()
    if rc2 != 0 or len(ml) != len(lines):
        ctx.violation("model-abort:" + tag, "the extracted model ended abnormally on stream %s" % tag,
                      {"stderr": merr[-3000:], "lines": len(ml), "expected": len(lines)}, found_input=False)
        ml += ["ABORT"] * (len(lines) - len(ml))
    return il, ml


# Hand-made mutations of librime applied in a scratch worktree (/var/tmp/wt-c18, VERIF_REPO/VERIF_CACHE pointing at it),
# `bin/check C18 quick` run against each, worktree removed afterwards.  Static record of what was run and what fired.
MUTATION_DRILLS = [
    {"mutation": "config_data.cc EmitScalar: '-' added to the plain-safe character class", "compiles": True,
     "detected": True, "fired": "VIOLATION roundtrip:single-line (found_input): root scalar '---' reloads as null; also roundtrip:random-shape"},
    {"mutation": "config_data.cc ResolveListIndex: index += 1 in the '@before' branch (off by one)", "compiles": True,
     "detected": True, "fired": "VIOLATION get-after-set:si/ss (found_input): config_set_int(\"/@before 1\", 255) then config_get_int(\"@1\") fails"},
    {"mutation": "config_types.cc ConfigValue::SetInt: std::to_string(static_cast<unsigned>(value))", "compiles": True,
     "detected": True, "fired": "VIOLATION get-after-set:si (found_input): negative ints are not read back"},
    {"mutation": "config_cow_ref.h CopyOnWrite: return the existing container instead of a copy (no copy-on-write)", "compiles": True,
     "detected": True, "fired": "VIOLATION harness-abort:histories (found_input; config_set_item of a config into itself builds a cyclic tree, "
                                "stack overflow under ASan) and correspondence:api-history (aliased subtrees change together)"},
    {"mutation": "config_data.cc EmitScalar: repair reverted (literal style for every text with a line break)", "compiles": True,
     "detected": True, "fired": "VIOLATION roundtrip:multi-line:first-line-empty-or-starting-with-blank, roundtrip:multi-line:control-character (found_input)"},
    {"mutation": "config_data.cc IsSafeForLiteralStyle: CR accepted when immediately followed by LF (\"readability for Windows users\"), so "
                 "\"one\\r\\n\", \"first line\\r\\nsecond line\\r\\n\", \"mixed\\nendings\\r\\n\" become literal blocks (independently seeded change; "
                 "first reported only as correspondence/no-failing-input-found because texts with CR were outside the judged domain - domain widened)",
     "compiles": True, "detected": True,
     "fired": "VIOLATION roundtrip:multi-line:carriage-return (found_input): root scalar \"one\\r\\n\" reloads as \"one\\n\"; 84 of the 114 "
              "cr-line-breaks trees fail the implementation-only round-trip oracle (root, block map value, block sequence entry, map key)"},
    {"mutation": "config_types.cc ConfigValue::GetInt: decimal fallback std::stoi replaced by strtol(.., &end, 0) with explicit checks "
                 "(base 0 reads 0<digits> as octal: \"010\" -> 8, \"08\" -> 0, \"0X1F\" -> 31; independently seeded change, first MISSED: "
                 "no such texts were generated - typed-conversion texts and a documented-result oracle added)", "compiles": True,
     "detected": True, "fired": "VIOLATION conversion:ss->gi (found_input): config_set_string \"010\" then config_get_int gives 8, documented 10; "
                                "\"+08\" gives 0 for 8; \"0090\" gives 0 for 90"},
    {"mutation": "config_data.cc ConfigData::TraverseWrite: early return when Traverse(node_path) already holds an equal scalar "
                 "(\"value unchanged, don't copy the path\"; for @before/@after the read side names the NEIGHBOUR, so a duplicate is never "
                 "inserted; independently seeded change, first reported only as correspondence - list-size oracle and duplicate-insertion "
                 "histories added)", "compiles": True,
     "detected": True, "fired": "VIOLATION list-form:size-after-ss and list-form:size (found_input): list [a, b], config_set_string(\"l/@before 0\", "
                                "\"a\") leaves size 2, documented 3; also one level down (\"a/l/@before 0/id\" with the neighbour's id)"},
    {"mutation": "config_types.cc ConfigValue::GetBool: boost::to_lower removed (case-sensitive)", "compiles": True,
     "detected": True, "fired": "VIOLATION correspondence:api-history no-failing-input-found (at the time; the typed-conversion oracle added later "
                                "judges config_get_bool of \"TRUE\"/\"tRuE\" as documented)"},
    {"mutation": "config_data.cc EmitYaml: lists in flow style from depth 4 instead of 3 (harmless layout change)", "compiles": True,
     "detected": True, "fired": "VIOLATION correspondence:emitted-bytes no-failing-input-found (reported, as the brief prescribes for a model/code mismatch)"},
]


def run(ctx):
    thorough = ctx.tier == "thorough"
    rng = random.Random(ctx.seed * 1000003 + 18)
    ctx.coverage["trusted_base"] = [
        "Coq 8.16.1 kernel + vm_compute (used for the witnesses of the *_refuted / Example theorems only); no native_compute",
        "coq/Cfg/Yaml.v part (b),(c): yaml-cpp 0.7.0's emitter and loader for the emitted subset are MODELLED (the library source is not in "
        "the sandbox); validated by the byte-for-byte and tree-for-tree correspondence below, both loaders run on both sides' bytes",
        "extraction: ExtrOcamlBasic only; ocaml/common/glue*.ml + ocaml/c18/driver.ml are conversion glue (hex, tree syntax)",
        "harness/c18/c18.cc (ASan+UBSan build of /repo's working tree: rime::ConfigData Save/LoadFromStream, public config_* API)",
        "doubles (std::to_string(double), std::stod) are not modelled: config_set_double/get_double are checked on the implementation only "
        "(value k/64 set, same value read, its %f text equal to the model's stored text)",
    ]
    ctx.assumptions += [
        "key paths: get-after-set is stated for paths whose components are non-empty (an empty component addresses the parent itself when "
        "writing but the key \"\" when reading - documented librime behaviour for '/+' style keys)",
        "list indices stay below 2^32 (unsigned int arithmetic of ResolveListIndex is modelled modulo 2^32; huge indices make the real code "
        "allocate the list and are not generated)",
        "scalar domain = UTF-8 encodings of Unicode scalar values that are not noncharacters (U+FDD0..U+FDEF, U+xxFFFE/F); texts with a line "
        "break must have no CR and end in exactly one LF (the property's wording); noncharacters are tried separately (known finding)",
        "map keys shorter than 256 bytes (longer keys are tried separately: known finding)",
        "correspondence is differential testing on the generated cases; it validates model = code, it is not the proof",
    ]
    res = vlib.proof_stage(ctx)
    proof_ok = res["ok"]

    okm, logm = vlib.coq_make(["Cfg/Api.vo", "Cfg/Yaml.vo"])
    if not okm:
        ctx.violation("model-does-not-compile", "coq/Cfg model files do not compile", {"log": logm[-4000:]}, found_input=False)
        return
    rmodel = vlib.ocaml_build("c18", "Extract_C18.v", os.path.join(vlib.VERIF, "ocaml", "c18", "driver.ml"))
    b = vlib.librime_build("asan")
    exe = vlib.cxx_build(os.path.join(vlib.WORK, "bin", "c18"), [os.path.join(vlib.VERIF, "harness", "c18", "c18.cc")],
                         flags="-I%s/src" % b, libs="-L%s/lib -lrime -lglog -Wl,-rpath,%s/lib" % (b, b))

    # ------------------------------------------------------------------ trees
    corpus = scalar_corpus(rng, thorough)
    cases = []   # (stream, context, tree, focus scalar or None)
    for cls, s in corpus:
        for cname, t in structured_trees(s):
            if cname == "nested" and len(s) > 300:
                continue
            cases.append((cls, cname, t, s))
    in_pool = [s for cls, s in corpus if scalar_domain(s) == "in" and len(s) < 200]
    key_pool = [s for s in in_pool if len(s) < 40]
    out_pool = [s for cls, s in corpus if scalar_domain(s).startswith("out") and len(s) < 200]
    nrand = 30000 if thorough else 1500
    for i in range(nrand):
        md = rng.choice([1, 2, 3, 4, 5, 5])
        t = random_tree(rng, in_pool, key_pool, 0, md)
        cases.append(("random-shape", "random", t, None))
    for i in range(nrand // 5):
        t = random_tree(rng, in_pool + out_pool, key_pool + out_pool, 0, rng.choice([2, 3, 4, 5]))
        cases.append(("random-shape-ood", "random", t, None))
    lines = ["T " + tree_str(t) for _, _, t, _ in cases]
    il, ml = run_both(ctx, rmodel, exe, lines, "trees")

    dist, ctxdist = {}, {}
    byte_diff, load_diff, oracle_fail = [], [], []
    cross = []     # (case index, whose bytes, hexdoc)
    nontrivial = set()
    for idx, ((cls, cname, t, focus), li, mi) in enumerate(zip(cases, il, ml)):
        dom = tree_domain(t)
        d = dist.setdefault(cls, {"trees": 0, "in_domain": 0, "bytes_differ": 0, "reload_differs_from_model": 0, "oracle_fail_on_impl": 0})
        d["trees"] += 1
        ctxdist[cname] = ctxdist.get(cname, 0) + 1
        lf, mf = li.split(" "), mi.split(" ")
        if len(lf) != 3 or len(mf) != 3:
            byte_diff.append((idx, li[:200], mi[:200]))
            d["bytes_differ"] += 1
            continue
        ibytes, iback = lf[0], lf[1]
        mbytes, mback, pruned = mf
        if dom == "in":
            d["in_domain"] += 1
        if any(not re.fullmatch(rb"[A-Za-z0-9_.]+", s) for _, s in scalars_of(t)) or depth_of(t) >= 3:
            nontrivial.add(lines[idx])
        if ibytes != mbytes:
            byte_diff.append((idx, ibytes, mbytes))
            d["bytes_differ"] += 1
            cross.append((idx, "impl", ibytes[:-1]))
            cross.append((idx, "model", mbytes[:-1]))
        if iback != mback:
            load_diff.append((idx, iback, mback))
            d["reload_differs_from_model"] += 1
        # the property's oracle on the implementation: reloaded tree = tree without null entries
        if dom in ("in", "nonchar", "long-key") and iback != pruned:
            oracle_fail.append((idx, dom, iback, pruned))
            d["oracle_fail_on_impl"] += 1
    # cross check: each loader on the other side's bytes (only informative when the bytes differ)
    cross_diff = []
    if cross:
        cl = ["Y " + h for _, _, h in cross]
        ci, cm = run_both(ctx, rmodel, exe, cl, "cross")
        for (idx, who, h), a, bb in zip(cross, ci, cm):
            if a != bb:
                cross_diff.append((idx, who, h, a, bb))

    # ------------------------------------------------------------------ file-based save/load histories (round 3, implementation oracle)
    nf = 4000 if thorough else 500
    fdir = ctx.scratch("c18files")
    fhists = [c18file.gen_file_history(rng) for _ in range(nf)]
    os.environ["VERIF_C18_DIR"] = fdir
    rcf, outf, errf = vlib.sh2([exe], stdin="".join("F " + ";".join(o) + "\n" for o in fhists), timeout=1500,
                               env={"ASAN_OPTIONS": "detect_leaks=0:abort_on_error=0", "UBSAN_OPTIONS": "print_stacktrace=1", "VERIF_C18_DIR": fdir})
    fl = outf.split("\n")
    file_fail = None
    if rcf != 0:
        ctx.violation("harness-abort:file-histories", "the real code ended abnormally on the file save/load stream rc=%d" % rcf,
                      {"case": "F " + ";".join(fhists[min(len(fl), nf) - 1]), "stderr": errf[-4000:]}, found_input=True)
    nsaves = 0
    for o, line in zip(fhists, fl):
        nsaves += sum(1 for x in o if x.startswith("sf") or x == "sv")
        j = c18file.judge(o, line)
        if j and file_fail is None:
            file_fail = (o, line, j)
    if file_fail:
        o, line, (i, clause, detail) = file_fail
        ctx.violation("file-save-load:" + clause, "a config saved to a file does not load back as the tree it held: " + detail,
                      {"history": o[:i + 1], "output": line[:3000], "cmd": "VERIF_C18_DIR=<empty dir> %s  with the line 'F %s' on stdin" % (exe, ";".join(o[:i + 1]))},
                      found_input=True)
    ctx.coverage["file_histories"] = {"histories": nf, "saves": nsaves}

    # ------------------------------------------------------------------ histories
    nh = 6000 if thorough else 600
    hists = []
    for i in range(nh):
        ops, expect = gen_history(rng, rng.randint(1, 30)) if i % 4 else gen_insert_history(rng)
        hists.append((ops, expect))
    hl = ["H " + ";".join(ops) for ops, _ in hists]
    hi, hm = run_both(ctx, rmodel, exe, hl, "histories")
    hist_diff, gas_fail, frame_fail, forms_fail = [], [], [], []
    opdist = {}
    ncalls = 0
    gas_checked = 0
    for hidx, ((ops, expect), a, bb) in enumerate(zip(hists, hi, hm)):
        ia, mb = a.split(" "), bb.split(" ")
        ncalls += len(ops)
        for o in ops:
            k = o.split(":")[0]
            opdist[k] = opdist.get(k, 0) + 1
        if len(ia) != len(ops) or len(mb) != len(ops):
            hist_diff.append((hidx, 0, a[:300], bb[:300]))
            continue
        for j, (x, y) in enumerate(zip(ia, mb)):
            if y.startswith("D?|") and x.startswith("D"):
                # doubles are not modelled: the result is checked by the oracle below, the trees are still compared
                if x.split("|", 1)[1] != y.split("|", 1)[1]:
                    hist_diff.append((hidx, j, x, y))
                    break
                continue
            if x != y:
                hist_diff.append((hidx, j, x, y))
                break
        # the property's oracles on the implementation's observations
        trees_before = ["N", "N", "N"]
        for j, x in enumerate(ia):
            if "|" not in x:
                break
            rj, tj = x.split("|", 1)
            trees_now = tj.split("/")
            k = ops[j].split(":")[0]
            cidx = int(ops[j].split(":")[1])
            if k in ("gs", "gi", "gb", "gd", "ls", "il", "im") and trees_now != trees_before:
                frame_fail.append((hidx, j, "a read changed a tree", x))
            if k in ("ss", "si", "sb", "sd", "cl", "ml", "mm", "st"):
                for other in range(3):
                    if other != cidx and trees_now[other] != trees_before[other]:
                        frame_fail.append((hidx, j, "a write changed another config", x))
                if rj == "B0" and trees_now != trees_before:
                    frame_fail.append((hidx, j, "a refused write changed a tree", x))
                if rj == "B1":
                    ff = top_level_frame(ops[j], trees_before[cidx], trees_now[cidx])
                    if ff:
                        frame_fail.append((hidx, j, ff, x))
                    lg = list_growth_oracle(ops[j], trees_before[cidx], trees_now[cidx])
                    if lg:
                        forms_fail.append((hidx, j, lg, x))
            trees_before = trees_now
        for gi, si, kind, val in expect:
            if gi >= len(ia) or "|" not in ia[gi] or "|" not in ia[si]:
                continue
            if ia[si].split("|")[0] != "B1":
                continue    # the write was refused (wrong kind on the way): nothing to read back
            gas_checked += 1
            got = ia[gi].split("|")[0]
            if kind == "gd":
                ok = got.startswith("D") and got != "D!" and float(got[1:]) == val
            else:
                ok = got == val
            if not ok:
                gas_fail.append((hidx, si, gi, ops[si], ops[gi], got, val))

    # ------------------------------------------------------------------ evidence
    ctx.coverage.update({
        "evaluations": len(cases) + ncalls,
        "trees": len(cases), "histories": len(hists), "api_calls": ncalls,
        "distinct_nontrivial": len(nontrivial) + len({";".join(o) for o, _ in hists if len(o) >= 3}),
        "rule": "trees: every scalar of a grammar aimed at the codec's case splits (empty, null/bool/number-like words, each ASCII punctuation "
                "first/middle/last and next to a blank, blanks, YAML indicators, quotes, backslash, every C0 control, DEL, NEL/LS/PS/BOM, 2/3/4-byte "
                "UTF-8, multi-line with 0/1/2 trailing breaks, CR LF / mixed / lone-CR line breaks, blank or empty first line, tab continuation, long "
                "texts, random compositions) x "
                "{root, block map value, block sequence entry, block map key, nested to depth 5 with flow context}, plus random shapes of depth "
                "<= 5 with null entries and empty containers; histories: 1..30 config_* calls over 3 configs, paths over map keys and "
                "@N/@next/@last/@before N/@after N (and malformed variants), each setter followed by the matching getter; non-trivial = "
                "distinct tree that holds a scalar outside [A-Za-z0-9_.]+ or reaches depth 3, or distinct history of >= 3 calls",
        "samples": [lines[i] for i in range(3, min(len(lines), 4000), 397)][:8] + hl[:3],
        "exhaustive": False,
        "scalar_classes": dist, "contexts": ctxdist, "api_call_mix": opdist,
        "corpus_scalars": len(corpus),
        "corpus_in_domain": sum(1 for _, s in corpus if scalar_domain(s) == "in"),
        "emitted_bytes_differ": len(byte_diff), "reloaded_tree_differs_from_model": len(load_diff),
        "cross_loader_differences": len(cross_diff), "roundtrip_oracle_failures_on_impl": len(oracle_fail),
        "history_differences": len(hist_diff), "get_after_set_checked_on_impl": gas_checked,
        "get_after_set_failures_on_impl": len(gas_fail), "frame_failures_on_impl": len(frame_fail),
        "list_form_failures_on_impl": len(forms_fail),
        "mutation_drills": MUTATION_DRILLS,
    })

    # ------------------------------------------------------------------ verdicts
    real = 0       # violations reported with a concrete failing input (known findings do not count)
    seen = set()
    for idx, dom, iback, pruned in oracle_fail:
        cls, cname, t, focus = cases[idx]
        if focus is not None:
            fc = failing_class(focus, cname in ("block-map-key", "nested"))
        else:
            # random shape: the culprit is a scalar of the tree that is missing from the reloaded tree
            # (when the document did not load at all: the first scalar of a suspicious class)
            fc = "random-shape"
            cands = list(scalars_of(t))
            if iback != "!":
                try:
                    got = [x for _, x in scalars_of(parse_tree(iback))]
                    missing = []
                    for kind, x in scalars_of(parse_tree(pruned)):
                        if x in got:
                            got.remove(x)
                        else:
                            missing.append((kind, x))
                    if missing:
                        cands = missing
                except (ValueError, IndexError):
                    pass
            for kind, x in cands:
                c2 = failing_class(x, kind == "k")
                if c2 != "single-line" or cands is not None and len(cands) == 1:
                    fc = c2
                    break
        key = "roundtrip:" + fc
        if key in seen:
            continue
        seen.add(key)
        real += ctx.violation(key, "a config tree inside the property's domain does not survive SaveToStream + LoadFromStream (%s)" % fc,
                              {"tree": lines[idx][2:], "context": cname, "scalar_hex": focus.hex() if focus is not None else None,
                               "scalar_repr": repr(focus)[:200] if focus is not None else None,
                               "emitted_yaml_hex": il[idx].split(" ")[0][:-1][:4000], "reloaded": iback[:2000], "expected": pruned[:2000],
                               "how": "build the tree (syntax: N | S<hex>; | L(..) | M(<hexkey>=..)) as rime::ConfigItem objects, "
                                      "ConfigData::SaveToStream, then ConfigData::LoadFromStream of the bytes and compare",
                               "cmd": "echo 'T %s' | %s" % (lines[idx][2:][:3000], exe)}, found_input=True)
    for hidx, si, gi, so, go, got, val in gas_fail[:3]:
        sk, gk = so.split(":")[0], go.split(":")[0]
        if gk == "ls":
            vkey, vwhat = "list-form:size-after-" + sk, "config_list_size after a write through a list reference is not the documented size"
        elif {"ss": "gs", "si": "gi", "sb": "gb", "sd": "gd"}.get(sk) == gk:
            vkey, vwhat = "get-after-set:" + sk, "a getter does not return the value just set"
        else:
            vkey, vwhat = "conversion:%s->%s" % (sk, gk), "a value of another type does not convert as documented (or does not fail cleanly)"
        real += ctx.violation(vkey, vwhat,
                              {"history": hl[hidx], "set_call": so, "get_call": go, "got": got, "expected": str(val),
                               "ops": "ss/si/sb/sd = config_set_string/int/bool/double, gs/gi/gb/gd = config_get_*, fields c:hex(path):value",
                               "cmd": "echo '%s' | %s" % (hl[hidx], exe)}, found_input=True)
    for hidx, j, why, x in forms_fail[:3]:
        fkey = "size" if why.startswith("list size") else "shift" if "shift" in why else "not-a-list"
        real += ctx.violation("list-form:" + fkey, "a list-reference form does not do what it is documented to do: " + why,
                              {"history": hl[hidx], "call_index": j, "call": hists[hidx][0][j], "observation": x[:2000],
                               "cmd": "echo '%s' | %s" % (hl[hidx], exe)}, found_input=True)
    for hidx, j, why, x in frame_fail[:3]:
        real += ctx.violation("frame:" + why.replace(" ", "-"), "an API call changed something it must not: " + why,
                              {"history": hl[hidx], "call_index": j, "call": hists[hidx][0][j], "observation": x[:2000],
                               "cmd": "echo '%s' | %s" % (hl[hidx], exe)}, found_input=True)
    # correspondence / proof breakage without a failing input of the property itself
    if real == 0:
        if byte_diff:
            idx, a, bb = byte_diff[0]
            ctx.violation("correspondence:emitted-bytes", "model and implementation emit different YAML for the same tree",
                          {"tree": lines[idx][2:][:3000], "impl_hex": a[:3000], "model_hex": bb[:3000], "count": len(byte_diff)}, found_input=False)
        if load_diff and not byte_diff:
            idx, a, bb = load_diff[0]
            ctx.violation("correspondence:reloaded-tree", "model loader and yaml-cpp disagree on an emitted document",
                          {"tree": lines[idx][2:][:3000], "doc_hex": il[idx].split(" ")[0][:3000], "impl": a[:2000], "model": bb[:2000],
                           "count": len(load_diff)}, found_input=False)
        if cross_diff:
            idx, who, h, a, bb = cross_diff[0]
            ctx.violation("correspondence:cross-loader", "the two loaders disagree on the %s's bytes" % who,
                          {"doc_hex": h[:3000], "impl": a[:2000], "model": bb[:2000], "count": len(cross_diff)}, found_input=False)
        if hist_diff:
            hidx, j, x, y = hist_diff[0]
            ctx.violation("correspondence:api-history", "model and implementation disagree on an API call",
                          {"history": hl[hidx], "call_index": j, "call": hists[hidx][0][j] if j < len(hists[hidx][0]) else None,
                           "impl": x[:2000], "model": y[:2000], "count": len(hist_diff)}, found_input=False)
        if not proof_ok:
            ctx.violation("proof:Properties_C18", "a proof obligation of Properties_C18.v no longer checks",
                          {"failed": res["failed"], "forbidden": res.get("forbidden"),
                           "log_tail": res["log"][-3000:] + ((res["props"] or {}).get("log", "")[-3000:])}, found_input=False)


def top_level_frame(op, before, after):
    """shallow frame oracle on the implementation's trees: a successful write through a first
    key that is a plain map key leaves every other entry of the root map as it was"""
    f = op.split(":")
    if len(f) < 3:
        return None
    p = bytes.fromhex(f[2]).decode("utf-8")
    if p in ("", "/"):
        return None
    keys = p.lstrip("/").split("/")
    k0 = next((k for k in keys if k != ""), None)
    if k0 is None:
        return None
    tb, ta = parse_tree(before), parse_tree(after)
    islist = len(k0) > 1 and k0[0] == "@" and k0[1].isalnum() and ord(k0[1]) < 128
    if not islist:
        if not isinstance(ta, dict):
            return "root is not a map after a write through a map key"
        if isinstance(tb, dict):
            for k, v in tb.items():
                if k != k0.encode("utf-8") and ta.get(k, "missing") != v:
                    return "a write changed an unrelated map entry"
            for k in ta:
                if k != k0.encode("utf-8") and k not in tb:
                    return "a write added an unrelated map entry"
    else:
        if not isinstance(ta, list):
            return "root is not a list after a write through a list reference"
        if isinstance(tb, list) and not (k0.startswith("@before") or k0.startswith("@after")):
            changed = [i for i in range(min(len(tb), len(ta))) if tb[i] != ta[i]]
            if len(changed) > 1:
                return "a write changed more than one list element"
    return None


MANIFEST = {
    "category": "proof",
    "technique": "Coq model of config key paths, typed access and the YAML scalar/tree codec with kernel-checked theorems + extracted-model "
                 "vs real-code correspondence (emitted bytes, reloaded trees, API histories with the tree after every call)",
    "text": "Properties_C18.v proves over the Gallina port of config_data.cc / config_types.cc / config_cow_ref.h (coq/Cfg): get-after-set "
            "for config_set_string/int/bool at every path built from map keys, @N, @next, @last, @before N, @after N (read back at the same "
            "path, @next at @last; unconditional on resolved steps), the meaning of each form, the frame property (every resolved path that "
            "leaves the written path is unchanged, shifted by one behind an insertion point), refusal without change on nodes of the wrong "
            "kind, int/bool text conversions (std::to_string/stoi/strtoul semantics), and the scalar codec round trip load_scalar (emit_scalar "
            "s) = s for every scalar of the property's domain in block and flow context, against a model of yaml-cpp 0.7's emitter and loader "
            "for the emitted subset; the same statement is refuted for EmitScalar as it was before the repair commit (witness \" a\\n\"). "
            "Tree round trip: C18_tree_roundtrip proves load (emit t) = prune t for every tree of the domain (sorted maps, scalars and keys in "
            "the scalar domain, keys < 256 bytes) by mutual induction over items: block sequences/maps with their indentation, flow style "
            "from depth 3, long-key form for literal keys, empty containers, null entries pruned. "
            "All induction, no bounds. Every run re-ties the model to /repo: ~7000 (thorough ~75000) generated trees and 600 (6000) API "
            "histories are run through the extracted model and through the real code (ASan/UBSan build); bytes, trees, results are diffed "
            "and the property's oracles are evaluated on the implementation's observations.",
    "note": "No axioms (Print Assumptions: closed under the global context for all theorems). Trusted: Coq kernel (+vm_compute for the "
            "refutation witnesses); the model of yaml-cpp 0.7.0's emitter/loader in coq/Cfg/Yaml.v is a port from the upstream text fitted to "
            "probes (library source not in the sandbox) and is validated only by correspondence; ExtrOcamlBasic extraction and the OCaml/C++ "
            "glue. Gaps: doubles (to_string(double)/stod) are checked on the implementation only; "
            "paths with empty components and list indices >= 2^32 are outside the theorems. Known findings reported on every run: Unicode "
            "noncharacters are replaced by U+FFFD by yaml-cpp's emitter; map keys whose escaped form exceeds 1024 bytes make the saved file "
            "unloadable.",
}
