"""C09 - spelling algebra and the prism preserve the spelling-to-syllable relation.

proof:  Properties_C09.v (Dict/Algebra.v, Dict/PrismModel.v and their proof files): for all
        syllabaries and all lists of calculations (the regex effect of each calculation is an
        arbitrary function), by induction.
tie:    correspondence - real rime::Calculus/Projection/Script and Prism::Build/Save/Load/queries
        (ASan+UBSan build of /repo's working tree) against the extracted model; the per-rule regex
        effects are sampled from the implementation (Calculation::Apply on every spelling) and fed
        to the model as its `capply` tables, so boost::regex is the oracle and the merge logic, the
        map order, the id assignment and the searches are what is compared.
search: the property's clauses evaluated directly (python, independent of the model) on the
        implementation's scripts and query results; what "a rule matched a spelling" means is checked
        against an independent reference of the six rule kinds (python `re` on bytes: erase = fullmatch,
        xform/derive/fuzz/abbrev = replace all matches and apply iff changed, xlit = per-character map)
        on every sampled (rule, spelling) effect.
"""
import os
import random
import re

import vlib

LEVEL = "proof"

KINDS = ["xlit", "xform", "erase", "derive", "fuzz", "abbrev"]
LETTER = {"xlit": "X", "xform": "T", "erase": "E", "derive": "D", "fuzz": "F", "abbrev": "A"}
NON_DELETING = ("derive", "fuzz", "abbrev")

MUTATION_DRILLS = [
    # each applied by hand in a scratch worktree (git -C /repo worktree add --detach /var/tmp/wt-c09 HEAD), run with
    # VERIF_REPO=/var/tmp/wt-c09 VERIF_CACHE=/var/tmp/rime-verif-c09 bin/check C09 quick, worktree removed afterwards
    {"mutation": "algebra.cc Script::Merge: `if (yy.type < zz.type)` -> `>` (max instead of min type on collision)",
     "fired": "VIOLATION oracle:additive-degraded (a derive round turned the normal spelling 'hz' of syllable 'zhz' into an abbreviation) + 28 model/implementation script mismatches"},
    {"mutation": "calculus.h Derivation::deletion() returns true (a derive rule deletes the original)",
     "fired": "VIOLATION oracle:additive (derive/^(.+|.)a$/d$1/ removed spelling 'cdcaa' of syllable 'cdcaa'); also oracle:own-name and the FLAGS stream (D:11 vs D:01)"},
    {"mutation": "prism.cc Prism::Build: `syllable_to_id[*it] = syll_id++` -> `++syll_id` (wrong syllable id mapping)",
     "fired": "VIOLATION oracle:roundtrip (QuerySpelling(GetValue('a')) = 1:0:0:-, the script has 0:0:0:-)"},
    {"mutation": "prism.cc Prism::ExpandSearch: the exact key is no longer pushed to the result",
     "fired": "VIOLATION oracle:expand (ExpandSearch('a', limit 0) = -, expected [(0, 1)])"},
    {"mutation": "prism.cc Prism::CommonPrefixSearch: length `len - 1` passed to commonPrefixSearch (off by one)",
     "fired": "VIOLATION oracle:common-prefix (CommonPrefixSearch('fd') = -, expected [(2, 2)])"},
    {"mutation": "algebra.cc Script::Merge: `if (yy.credibility > zz.credibility)` -> `<` (min instead of max credibility)",
     "fired": "VIOLATION oracle:additive-degraded (credibility 0 -> -1 under a derive round)"},
    {"mutation": "algebra.cc Projection::Apply: `x->addition() && !s.str.empty()` -> `x->addition()` (empty results merged)",
     "fired": "VIOLATION oracle:empty-key (the empty string became a spelling)"},
    {"mutation": "calculus.cc Erasion::Apply re-implemented as regex_replace(spelling, pattern, \"\") leaving nothing (instead of regex_match) "
                 "- the seeded change the first version of this check missed because rule effects were only sampled from the implementation",
     "fired": "VIOLATION oracle:rule-effect:erase with the rule and spelling (erase/a|u\u00f1/ on 'au\u00f1': implementation applied -> '', the rule's definition "
              "(python re.fullmatch reference) says not applied)"},
    {"mutation": "calculus.cc Erasion::Apply: regex_match -> regex_search",
     "fired": "VIOLATION oracle:rule-effect:erase (same input class)"},
    {"mutation": "calculus.cc Transformation::Apply: regex_replace(..., boost::format_first_only) (first match only)",
     "fired": "VIOLATION oracle:rule-effect:derive (derive/d.?/c/ on 'dadb': implementation 'cdb', reference 'cc'); also abbrev and xform instances"},
    {"mutation": "prism.cc Prism::ExpandSearch: `++count >= limit` -> `++count > limit` in the scan loop",
     "fired": "VIOLATION oracle:expand (ExpandSearch('', limit 1) = 0:1,1:1, expected [(0, 1)])"},
]


def hx(b):
    return b.hex() if b else "-"


def unhx(h):
    return b"" if h == "-" else bytes.fromhex(h)


# ---------------------------------------------------------------------------
# generators (one PRNG, seeded from ctx.seed)
# ---------------------------------------------------------------------------

ASCII_LETTERS = "abcdefghimnouz"
UTF8_LETTERS = ["a", "b", "e", "u", "ü", "ê", "ā", "ñ"]


class Gen:
    def __init__(self, rng, utf8):
        self.rng = rng
        self.utf8 = utf8
        r = rng
        if utf8:
            self.letters = r.sample(UTF8_LETTERS, r.randint(2, 5))
            if all(len(c.encode()) == 1 for c in self.letters):
                self.letters[0] = "ü"
        else:
            self.letters = r.sample(ASCII_LETTERS, r.randint(2, 5))
        self.tones = r.random() < 0.3 and not utf8
        # short "units": patterns built from them meet spellings that are repetitions / concatenations
        # of matches - where regex_match, regex_search and regex_replace-to-empty differ
        self.units = ["".join(r.choice(self.letters) for _ in range(r.randint(1, 2))) for _ in range(2)]

    def word(self, lo=1, hi=5):
        r = self.rng
        w = "".join(r.choice(self.letters) for _ in range(r.randint(lo, hi)))
        return w

    def syllables(self):
        r = self.rng
        n = r.choice([1, 2, 3, 4, 5, 6, 8, 10, 12])
        out = []
        for _ in range(n):
            w = self.word()
            if self.tones:
                w += r.choice("12")
            out.append(w)
        # prefix-related and extension-related syllables: trie boundaries
        if out and r.random() < 0.6:
            out.append(out[0] + self.word(1, 2))
        if out and len(out[0]) > 1 and r.random() < 0.4:
            out.append(out[0][:-1])
        if r.random() < 0.55:
            u, w = self.units
            out += r.sample([u, u + u, u + u + u, u + w, w + u, u + w + u, w + w, u + w + u + w], r.randint(2, 5))
        r.shuffle(out)
        return out

    def unit_pattern(self):
        r = self.rng
        u, w = self.units
        return r.choice([u, w, "%s|%s" % (u, w), "^" + u, u + "$", "(%s)+" % u, "(%s|%s)" % (u, w),
                         "^(%s)+$" % u, "^%s|%s$" % (u, w), u + w, "(%s)\\1" % u])

    # --- regular expressions (boost perl syntax): anchors, classes, groups, alternation,
    #     quantifiers, back-references.  In utf8 mode only whole characters are used as atoms
    #     (no `.` / classes, which would split a multi-byte character).
    def atom(self, st, depth):
        r = self.rng
        x = r.random()
        if self.utf8:
            if x < 0.55 or depth > 1:
                return r.choice(self.letters)
            if x < 0.7 and st["closed"]:
                return "\\%d" % r.choice(st["closed"])
            return self.group(st, depth)
        if x < 0.35 or depth > 2:
            return r.choice(self.letters + (["\\d"] if self.tones and r.random() < 0.3 else []))
        if x < 0.45:
            return "."
        if x < 0.65:
            k = r.randint(1, max(1, len(self.letters) - 1))
            return "[" + ("^" if r.random() < 0.25 else "") + "".join(r.sample(self.letters, k)) + "]"
        if x < 0.75 and st["closed"]:
            return "\\%d" % r.choice(st["closed"])
        return self.group(st, depth)

    def group(self, st, depth):
        r = self.rng
        st["n"] += 1
        me = st["n"]
        body = self.seq(st, depth + 1, 2)
        if r.random() < 0.4:
            body += "|" + self.seq(st, depth + 1, 2)
        st["closed"].append(me)
        return "(" + body + ")"

    def seq(self, st, depth, maxn=3):
        r = self.rng
        s = ""
        for _ in range(r.randint(1, maxn)):
            a = self.atom(st, depth)
            if r.random() < 0.3:
                q = r.choice("*+?")
                if self.utf8 and len(a.encode()) > 1 and not a.startswith(("(", "\\")):
                    a = "(?:" + a + ")"
                a += q
            s += a
        return s

    def pattern(self, whole=False):
        r = self.rng
        st = {"n": 0, "closed": []}
        body = self.seq(st, 0)
        pre = "^" if (whole or r.random() < 0.5) else ""
        post = "$" if (whole or r.random() < 0.4) else ""
        if whole and r.random() < 0.5:
            body += "(?:%s)*" % "|".join(self.letters) if self.utf8 else ".*"
        return pre + body + post, st["n"]

    def replacement(self, ngroups):
        r = self.rng
        out = ""
        for _ in range(r.choice([0, 1, 1, 2, 2, 3])):
            if ngroups and r.random() < 0.5:
                out += "$%d" % r.randint(1, ngroups)
            else:
                out += r.choice(self.letters)
        return out

    def formula(self, syls):
        # in UTF-8 mode a pattern that can match the empty string would insert its replacement between
        # the bytes of a multi-byte character (boost::regex works on bytes): outside the domain
        for _ in range(50):
            kind, f = self.formula1(syls)
            if not self.utf8 or kind == "xlit":
                return kind, f
            try:
                if re.compile(f.encode().split(b"/")[1]).search(b"") is None:
                    return kind, f
            except re.error:
                return kind, f
        return "erase", "erase/^%s$/" % self.letters[0]

    def formula1(self, syls):
        r = self.rng
        kind = r.choice(KINDS)
        if kind == "xlit":
            k = r.randint(1, len(self.letters))
            left = r.sample(self.letters, k)
            right = [r.choice(self.letters + (["x"] if r.random() < 0.2 else [])) for _ in left]
            return kind, "xlit/%s/%s/" % ("".join(left), "".join(right))
        if kind == "erase":
            x = r.random()
            if x < 0.3 and syls:
                s = r.choice(syls)      # a pattern that certainly matches one whole syllable
                return kind, "erase/^%s$/" % s
            if x < 0.5:
                p, _ = self.pattern(whole=True)
                return kind, "erase/%s/" % p
            if x < 0.8:                 # un-anchored / partially anchored, over the units
                return kind, "erase/%s/" % self.unit_pattern()
            p, _ = self.pattern()       # random anchors
            return kind, "erase/%s/" % p
        if r.random() < 0.2:
            return kind, "%s/%s/%s/" % (kind, self.unit_pattern(), r.choice(["", "", r.choice(self.letters), self.units[1]]))
        if r.random() < 0.25 and syls:
            # aimed rule: rewrite a concrete syllable (or its head) into another one -> collisions
            s = r.choice(syls)
            t = r.choice(syls) if r.random() < 0.6 else self.word(0, 2)
            cut = r.randint(1, len(s))
            return kind, "%s/^%s/%s/" % (kind, s[:cut], t[:r.randint(0, len(t))] if r.random() < 0.5 else t)
        p, n = self.pattern()
        return kind, "%s/%s/%s/" % (kind, p, self.replacement(n))


def corpus_cases():
    """hand-kept cases (run first): corpus/C09/cases.jsonl"""
    import json
    out = []
    p = os.path.join(vlib.VERIF, "corpus", "C09", "cases.jsonl")
    if os.path.exists(p):
        for i, l in enumerate(open(p, encoding="utf8")):
            if not l.strip():
                continue
            j = json.loads(l)
            out.append({"id": "k%d" % i, "utf8": any(ord(ch) > 127 for s in j["syls"] for ch in s),
                        "syls": [s.encode() for s in j["syls"]],
                        "rules": [(f.split("/")[0], f.encode()) for f in j["rules"]],
                        "queries": sorted(q.encode() for q in j["queries"]), "limits": j["limits"]})
    return out


def gen_case(rng, idx, big=False):
    g = Gen(rng, utf8=rng.random() < 0.25)
    syls = g.syllables()
    if big:
        syls += g.syllables() + g.syllables()
    nrules = rng.choice([0, 1, 1, 2, 2, 3, 3, 4, 5, 6]) + (rng.randint(0, 4) if big else 0)
    rules = [g.formula(syls) for _ in range(nrules)]
    # explicit queries: random words, mutated syllables; the harness adds every key, every prefix
    # of every key and one-letter extensions itself
    qs = set()
    for _ in range(rng.randint(2, 6)):
        qs.add(g.word(1, 4))
    for s in syls[:3]:
        qs.add(s + rng.choice(g.letters))
        if len(s) > 1:
            qs.add(s[:-1] + rng.choice(g.letters))
    limits = sorted({0, 1, 2, rng.randint(3, 8)})
    return {"id": "c%d" % idx, "utf8": g.utf8, "syls": [s.encode() for s in syls],
            "rules": [(k, f.encode()) for k, f in rules], "queries": sorted(q.encode() for q in qs),
            "limits": limits}


def gen_merge_case(rng, idx):
    """out-of-domain stream: Script::Merge driven directly (all six types, tips, repeated syllables,
    syllables outside the syllabary).  Only model agreement is checked on it."""
    letters = rng.sample(ASCII_LETTERS, rng.randint(2, 4))
    def word(lo, hi):
        return "".join(rng.choice(letters) for _ in range(rng.randint(lo, hi)))
    pool = [word(1, 3) for _ in range(rng.randint(2, 5))]
    keys = [word(1, 3) for _ in range(rng.randint(1, 4))]
    def props(maxpen):
        tips = word(1, 4) if rng.random() < 0.4 else ""
        return "%d:%d:%s" % (rng.randint(0, 5), -rng.randint(0, maxpen), hx(tips.encode()))
    ops = []
    for _ in range(rng.randint(1, 8)):
        v = ",".join("%s:%s" % (hx(rng.choice(pool).encode()), props(3)) for _ in range(rng.randint(1, 3)))
        ops.append("%s|%s|%s" % (hx(rng.choice(keys).encode()), props(1), v))
    syls = [s for s in pool if rng.random() < 0.8] or [pool[0]]
    qs = {word(1, 3) for _ in range(3)}
    return {"id": "m%d" % idx, "utf8": False, "merge": "M:" + ";".join(ops), "syls": [s.encode() for s in syls],
            "rules": [], "queries": sorted(q.encode() for q in qs), "limits": sorted({0, 1, rng.randint(2, 5)})}


def case_line(c):
    if c.get("merge"):
        return "%s %s %s %s %s" % (c["id"], ",".join(hx(s) for s in c["syls"]), c["merge"],
                                   ",".join(hx(q) for q in c["queries"]) or "_", ",".join(str(l) for l in c["limits"]))
    return "%s %s %s %s %s" % (
        c["id"], ",".join(hx(s) for s in c["syls"]) or "_",
        ";".join(hx(f) for _, f in c["rules"]) or "_",
        ",".join(hx(q) for q in c["queries"]) or "_",
        ",".join(str(l) for l in c["limits"]))


# ---------------------------------------------------------------------------
# parsing the observation lines
# ---------------------------------------------------------------------------

def parse_script(txt):
    """-> list of (key bytes, [(syllable bytes, type int, cred str, tips hex)])"""
    if txt == "-":
        return []
    out = []
    for ent in txt.split(";"):
        k, v = ent.split("=")
        lst = []
        for x in v.split(","):
            s, ty, cr, tips = x.split(":")
            lst.append((unhx(s), int(ty), cr, tips))
        out.append((unhx(k), lst))
    return out


def parse_pairs(txt):
    if txt == "-":
        return []
    return [tuple(int(y) for y in x.split(":")) for x in txt.split(",")]


def parse_impl(lines):
    """group harness lines by case id"""
    by = {}
    for l in lines:
        f = l.split(" ")
        if len(f) < 2:
            continue
        d = by.setdefault(f[0], {"flags": None, "samples": {}, "rounds": {}, "script": None, "stepwise": None,
                                 "prism": None, "q": [], "loadfail": False, "throws": None, "raw": []})
        d["raw"].append(l)
        tag = f[1]
        if tag == "LOADFAIL":
            d["loadfail"] = True
        elif tag == "THROWS":
            d["throws"] = f[2]
        elif tag == "FLAGS":
            d["flags"] = f[2]
        elif tag == "SAMPLE":
            d["samples"][int(f[2])] = f[3]
        elif tag == "ROUND":
            d["rounds"][int(f[2])] = f[3]
        elif tag == "SCRIPT":
            d["script"] = (f[2], f[3])
        elif tag == "STEPWISE":
            d["stepwise"] = f[2]
        elif tag == "PRISM":
            d["prism"] = " ".join(f[2:])
        elif tag == "Q":
            d["q"].append(f[2:])
    return by


def sample_table(txt):
    """'K|key>res:type:cred|key>~' -> {key bytes: None | (res bytes, type, cred)}"""
    t = {}
    for e in txt.split("|")[1:]:
        k, r = e.split(">")
        if r == "~":
            t[unhx(k)] = None
        else:
            s, ty, cr = r.split(":")
            t[unhx(k)] = (unhx(s), int(ty), cr)
    return t


# ---------------------------------------------------------------------------
# independent reference for what the six rule kinds do to one spelling (python `re` on bytes), as
# coded in calculus.cc: erase applies iff the pattern matches the WHOLE spelling (regex_match) and
# leaves the empty string; xform/derive/fuzz/abbrev replace ALL matches (regex_replace, perl format)
# and apply iff the result differs from the input; fuzz/abbrev add type 1/2 and one penalty; xlit maps
# characters one by one and applies iff some character is in the map (even when mapped to itself);
# nothing applies to the empty string.  Formulas outside the subset python is known to share with
# boost's perl syntax are skipped and counted.
# ---------------------------------------------------------------------------

import re


class RefSkip(Exception):
    pass


_REF_CACHE = {}


def ref_rule(kind, formula):
    """-> function spelling bytes -> None | (result bytes, type, cred str); raises RefSkip"""
    key = (kind, formula)
    if key in _REF_CACHE:
        r = _REF_CACHE[key]
        if isinstance(r, RefSkip):
            raise r
        return r
    try:
        r = _ref_rule(kind, formula)
    except RefSkip as e:
        _REF_CACHE[key] = e
        raise
    _REF_CACHE[key] = r
    return r


def _ref_pattern(pat):
    # escapes shared with python: \d and back-references; groups: plain and (?:...)
    for m in re.finditer(rb"\\(.)", pat):
        if not (m.group(1).isdigit() and m.group(1) != b"0") and m.group(1) != b"d":
            raise RefSkip("escape \\%s" % m.group(1).decode("latin1"))
    if b"[:" in pat or b"[." in pat or b"[=" in pat:
        raise RefSkip("posix class")
    if re.search(rb"\(\?(?!:)", pat):
        raise RefSkip("(? construct")
    if re.search(rb"[*+?}][*+?{]", pat):
        raise RefSkip("stacked quantifier")
    if b"{" in pat:
        raise RefSkip("brace quantifier")
    # a back-reference inside a repeated group sees the capture of an earlier iteration; python and
    # boost/perl are known to differ there (a loop iteration that matched the empty string ends the
    # loop in perl semantics, python goes on) - e.g. ^((i|n?)?|\\2[en])+o*c on "ece1"
    stack, spans, refs, i, in_class = [], [], [], 0, False
    while i < len(pat):
        ch = pat[i:i + 1]
        if ch == b"\\":
            if pat[i + 1:i + 2].isdigit():
                refs.append(i)
            i += 2
            continue
        if in_class:
            in_class = ch != b"]"
        elif ch == b"[":
            in_class = True
            if pat[i + 1:i + 2] == b"^":
                i += 1
            if pat[i + 1:i + 2] == b"]":
                i += 1
        elif ch == b"(":
            stack.append(i)
        elif ch == b")" and stack:
            o = stack.pop()
            if pat[i + 1:i + 2] in (b"*", b"+", b"?"):
                spans.append((o, i))
        i += 1
    if any(o < r < c for r in refs for o, c in spans):
        raise RefSkip("back-reference inside a repeated group")
    try:
        return re.compile(pat)
    except re.error as e:
        raise RefSkip("python refuses the pattern: %s" % e)


def _ref_rule(kind, formula):
    args = formula.split(b"/")          # the generator always separates with '/'
    if kind == "xlit":
        try:
            left, right = args[1].decode("utf8"), args[2].decode("utf8")
        except UnicodeDecodeError:
            raise RefSkip("xlit not utf-8")
        if len(left) != len(right):
            raise RefSkip("xlit lengths differ")
        cmap = {}
        for a, b in zip(left, right):
            cmap[a] = b

        def xlit(sp):
            if not sp:
                return None
            if len(sp) > 240:
                raise RefSkip("xlit buffer")
            try:
                t = sp.decode("utf8")
            except UnicodeDecodeError:
                raise RefSkip("spelling not utf-8")
            if not any(ch in cmap for ch in t):
                return None
            return ("".join(cmap.get(ch, ch) for ch in t).encode("utf8"), 0, "0")
        return xlit
    rx = _ref_pattern(args[1])
    if kind == "erase":
        return lambda sp: None if (not sp or rx.fullmatch(sp) is None) else (b"", 0, "0")
    rep = args[2]
    toks, i = [], 0
    while i < len(rep):
        ch = rep[i:i + 1]
        if ch == b"$":
            j = i + 1
            while j < len(rep) and rep[j:j + 1].isdigit():
                j += 1
            if j != i + 2:
                raise RefSkip("replacement $ form")
            n = int(rep[i + 1:j])
            if n == 0 or n > rx.groups:
                raise RefSkip("replacement group out of range")
            toks.append(n)
            i = j
        elif ch in b"\\(){}?:&":
            raise RefSkip("replacement special character")
        else:
            toks.append(ch)
            i += 1

    def expand(m):
        return b"".join((m.group(t) or b"") if isinstance(t, int) else t for t in toks)
    ty, cr = {"fuzz": (1, "-1"), "abbrev": (2, "-1")}.get(kind, (0, "0"))

    def xform(sp):
        if not sp:
            return None
        res = rx.sub(expand, sp)
        return None if res == sp else (res, ty, cr)
    return xform


def schar_key(b):
    return tuple(x - 256 if x >= 128 else x for x in b)


# ---------------------------------------------------------------------------
# the property's clauses on the implementation's observations
# ---------------------------------------------------------------------------

def oracle(c, d, refstats=None):
    """-> list of (clause key, description, details) violated by the implementation on this case."""
    bad = []
    if refstats is None:
        refstats = {"checked": 0, "applied": 0, "skipped": {}}
    # (r) what "the rule matched the spelling" means: every sampled effect of Calculation::Apply against
    #     the independent reference
    for r, (kind, f) in enumerate(c["rules"]):
        try:
            fn = ref_rule(kind, f)
        except RefSkip as e:
            why = str(e)
            refstats["skipped"][why] = refstats["skipped"].get(why, 0) + len(sample_table(d["samples"][r]))
            continue
        for sp, got in sample_table(d["samples"][r]).items():
            try:
                want = fn(sp)
            except RefSkip as e:
                refstats["skipped"][str(e)] = refstats["skipped"].get(str(e), 0) + 1
                continue
            refstats["checked"] += 1
            refstats["applied"] += 1 if want is not None else 0
            if got != want:
                def show(x):
                    return "not applied" if x is None else "applied -> %r (type %d, credibility %s)" % x
                bad.append(("rule-effect:" + kind,
                            "%s on spelling %r: the implementation says %s, the rule's definition says %s"
                            % (f.decode("utf8", "replace"), sp, show(got), show(want)),
                            {"rule": f.decode("utf8", "replace"), "rule_hex": hx(f), "spelling": hx(sp), "round": r}))
    syllabary = sorted(set(c["syls"]))
    sylset = set(syllabary)
    init = [(s, [(s, 0, "0", "-")]) for s in syllabary]
    rounds = [init] + [parse_script(d["rounds"][r]) for r in range(len(c["rules"]))]
    applied, final_txt = d["script"]
    final = parse_script(final_txt)
    # (a) every spelling denotes at least one syllable of the syllabary
    for k, lst in final:
        if not lst or any(x[0] not in sylset for x in lst):
            bad.append(("denotes", "spelling %r has an empty list or a syllable outside the syllabary" % k,
                        {"spelling": hx(k), "list": [hx(x[0]) for x in lst]}))
        if k == b"":
            bad.append(("empty-key", "the empty string became a spelling", {}))
    # (b) derive / fuzz / abbrev never remove an existing spelling (nor degrade it: the entry stays
    #     with a type no worse and a credibility no lower - C09_additive_rule_keeps)
    for r, (kind, f) in enumerate(c["rules"]):
        if kind in NON_DELETING:
            after = {(k, x[0]): x for k, lst in rounds[r + 1] for x in lst}
            for k, lst in rounds[r]:
                for x in lst:
                    y = after.get((k, x[0]))
                    if y is None:
                        bad.append(("additive", "round %d (%s) removed spelling %r of syllable %r" % (r, f.decode("utf8", "replace"), k, x[0]),
                                    {"round": r, "spelling": hx(k), "syllable": hx(x[0])}))
                    elif y[1] > x[1] or (y[2].lstrip("-").isdigit() and x[2].lstrip("-").isdigit() and int(y[2]) < int(x[2])):
                        bad.append(("additive-degraded", "round %d (%s) degraded spelling %r of syllable %r from type %d/credibility %s to type %d/credibility %s"
                                    % (r, f.decode("utf8", "replace"), k, x[0], x[1], x[2], y[1], y[2]),
                                    {"round": r, "spelling": hx(k), "syllable": hx(x[0])}))
    # (c) own name lost only if a replacing or erasing rule matched it
    if d["stepwise"] == "same":
        fin = {(k, x[0]) for k, lst in final for x in lst}
        for s in syllabary:
            if (s, s) in fin:
                continue
            matched = False
            for r, (kind, f) in enumerate(c["rules"]):
                if kind in NON_DELETING:
                    continue
                t = sample_table(d["samples"][r])
                if t.get(s) is not None:
                    matched = True
            if not matched:
                bad.append(("own-name", "syllable %r is no longer spelled by its own name although no xlit/xform/erase rule matched it" % s,
                            {"syllable": hx(s)}))
    else:
        bad.append(("stepwise", "Projection::Apply with all formulas differs from applying them one by one", {}))
    # (d), (e): the prism built from the script (or from the syllabary when the algebra did not apply)
    if applied == "1" and final:
        keys = [k for k, _ in final]
        expect_s = {k: ",".join("%d:%d:%s:%s" % (syllabary.index(x[0]) if x[0] in sylset else -1, x[1], x[2], x[3]) for x in lst)
                    for k, lst in final}
        null = 0
    else:
        keys = list(syllabary)
        expect_s = {k: "%d:0:0:-" % i for i, k in enumerate(keys)}
        null = 1
    if keys != sorted(keys):
        bad.append(("map-order", "script keys are not in std::string order", {}))
    rank = {k: i for i, k in enumerate(keys)}
    pm = dict(x.split("=") for x in d["prism"].split(" ")) if d["prism"] and "=" in d["prism"] else None
    if pm is None:
        bad.append(("prism-build", "Prism::Build/Save/Load failed: %s" % d["prism"], {}))
        return bad
    if int(pm["null"]) != null or int(pm["n"]) != len(keys):
        bad.append(("prism-shape", "prism has %s spellings, spelling map absent=%s; expected %d, %d" % (pm["n"], pm["null"], len(keys), null), {}))
    seen = set()
    for q in d["q"]:
        qb = unhx(q[0])
        seen.add(qb)
        obs = dict(x.split("=", 1) for x in q[1:])
        what = None
        if qb in rank:
            if obs["G"] != str(rank[qb]):
                what = ("roundtrip", "GetValue(%r) = %s, expected id %d" % (qb, obs["G"], rank[qb]))
            elif obs["S"] != expect_s[qb]:
                what = ("roundtrip", "QuerySpelling(GetValue(%r)) = %s, the script has %s" % (qb, obs["S"], expect_s[qb]))
        elif obs["G"] != "-":
            what = ("roundtrip", "GetValue(%r) = %s for a string that is not a spelling" % (qb, obs["G"]))
        if what is None:
            ec = [(rank[qb[:n]], n) for n in range(1, len(qb) + 1) if qb[:n] in rank]
            if parse_pairs(obs["C"]) != ec:
                what = ("common-prefix", "CommonPrefixSearch(%r) = %s, expected %s" % (qb, obs["C"], ec))
        if what is None:
            ext = sorted((k for k in keys if k.startswith(qb)), key=lambda k: (len(k), schar_key(k)))
            for l in c["limits"]:
                ee = [(rank[k], len(k)) for k in ext]
                if l:
                    ee = ee[:l]
                if parse_pairs(obs["E%d" % l]) != ee:
                    what = ("expand", "ExpandSearch(%r, limit %d) = %s, expected %s" % (qb, l, obs["E%d" % l], ee))
                    break
        if what:
            bad.append((what[0], what[1], {"query": hx(qb)}))
    for k in keys:
        if k not in seen:
            bad.append(("harness", "key %r was not queried" % k, {}))
    return bad


# ---------------------------------------------------------------------------

def run(ctx):
    ctx.coverage["trusted_base"] = [
        "Coq 8.16.1 kernel (vm_compute only in the non-vacuity examples); no native_compute",
        "Dict/Algebra.v, Dict/PrismModel.v as faithful ports of algebra.cc / calculus.h flags / prism.cc (validated by the correspondence)",
        "boost::regex / the xlit map: not modelled - each calculation's effect is an arbitrary function in the theorems and a table sampled from the implementation in the correspondence; the sampled effects are checked against a python `re` reference of the rule kinds' documented semantics (trusted as reference for the generated regex subset)",
        "darts-clone double array: abstract trie (residual key sets); mapped-file byte layout: identity (both exercised by the harness through Build/Save/Load)",
        "extraction: ExtrOcamlBasic only; ocaml/common/glue*.ml + ocaml/c09/driver.ml are conversion glue",
        "harness/c09/c09.cc on the ASan+UBSan build of /repo's working tree",
    ]
    ctx.assumptions += [
        "credibilities are iterated double sums of the one constant log(0.5); the n-fold sums (and their float casts) are pairwise distinct and decreasing, so the model's integer penalty count is order-isomorphic (the harness decodes every credibility by exact equality and prints ?<hex> otherwise)",
        "spellings, syllables and queries contain no NUL byte; syllables are non-empty; UTF-8 syllables are only rewritten on character boundaries",
        "Calculation::Apply does not throw (no boost::regex complexity overflow on the generated patterns)",
        "Save/Load is the identity on the structural prism value (validated by the harness, which queries a freshly loaded object)",
        "correspondence is differential testing on the explored cases; it validates model = code, it is not the proof",
    ]
    res = vlib.proof_stage(ctx)
    proof_ok = res["ok"]
    if proof_ok and ctx.tier == "thorough":
        # independent re-check of the compiled theorems and their whole dependency cone
        for attempt in (0, 1):
            rcc, outc = vlib.sh("timeout 900 coqchk -silent -o -Q . RimeV RimeV.Properties_C09", cwd=vlib.COQ, timeout=930)
            if rcc == 0:
                break
        import re as _re
        m = _re.search(r"\* Axioms:\s*(.*?)\n\s*\n", outc, _re.S)
        ctx.coverage["coqchk"] = {"rc": rcc, "axioms": (m.group(1).strip() if m else "?")}
        if rcc != 0 or not m or m.group(1).strip() != "<none>":
            proof_ok = False
            res["failed"] = list(res.get("failed", [])) + [("coqchk", 0)]
            res["log"] += "\ncoqchk:\n" + outc[-3000:]

    okm, logm = vlib.coq_make(["Dict/Algebra.vo", "Dict/PrismModel.vo"])
    if not okm:
        ctx.violation("model-does-not-compile", "Dict/Algebra.v or Dict/PrismModel.v does not compile",
                      {"log": logm[-4000:]}, found_input=False)
        return
    rmodel = vlib.ocaml_build("c09", "Extract_C09.v", os.path.join(vlib.VERIF, "ocaml", "c09", "driver.ml"))
    b = vlib.librime_build("asan")
    exe = vlib.cxx_build(os.path.join(vlib.WORK, "bin", "c09"), [os.path.join(vlib.VERIF, "harness", "c09", "c09.cc")],
                         flags="-I%s/src" % b, libs="-L%s/lib -lrime -lglog -Wl,-rpath,%s/lib" % (b, b))

    ncases = 700 if ctx.tier == "quick" else 20000
    rng = random.Random(ctx.seed * 1000003 + 9)
    cases = corpus_cases()
    ncorpus = len(cases)
    cases += [gen_case(rng, i, big=(ctx.tier == "thorough" and i % 5 == 4)) for i in range(ncases)]
    cases += [gen_merge_case(rng, i) for i in range(ncases // 7)]
    ncases = len(cases)
    work = ctx.scratch("c09")
    rc, out, err = vlib.sh2([exe, work], stdin="\n".join(case_line(c) for c in cases) + "\n", timeout=1500,
                            env={"ASAN_OPTIONS": "detect_leaks=0:abort_on_error=0", "UBSAN_OPTIONS": "print_stacktrace=1",
                                 "GLOG_minloglevel": "3", "GLOG_logtostderr": "1"})
    lines = [l for l in out.split("\n") if l.strip()]
    impl = parse_impl(lines)
    if rc != 0:
        last = lines[-1].split(" ")[0] if lines else None
        nxt = None
        ids = [c["id"] for c in cases]
        if last in ids:
            i = ids.index(last)
            # the case being processed is the last one printed, or the one after it
            nxt = [case_line(cases[j]) for j in (i, i + 1) if j < len(cases)]
        ctx.violation("harness-abort", "the harness ended abnormally (sanitizer report or crash) rc=%d" % rc,
                      {"cmd": "%s <workdir> < cases" % exe, "stderr": err[-6000:], "candidate_case_lines": nxt},
                      found_input=True)

    # --- model input = the case + the sampled effects; queries = the ones the harness answered
    feed, fed, thrown_bad = [], [], []
    stats = {"direct_merge_cases": 0, "direct_merge_queries": 0, "direct_merge_types": {}, "direct_merge_tips": 0,
             "cases": 0, "loadfail": 0, "regex_complexity_discarded": 0, "utf8": 0, "rules": {k: 0 for k in KINDS}, "rule_applied": 0, "rule_not_applied": 0,
             "erased_to_empty": 0, "xform_to_empty": 0, "multi_syllable_spellings": 0, "same_syllable_collisions": 0,
             "algebra_not_applied": 0, "script_erased_entirely": 0, "queries": 0, "query_is_key": 0, "query_nonkey": 0,
             "expand_cut_by_limit": 0, "high_byte_alphabets": 0, "max_penalties": 0, "types_seen": {}}
    for c in cases:
        d = impl.get(c["id"])
        if d is None or d["script"] is None or d["prism"] is None:
            if d is not None and d["loadfail"]:
                stats["loadfail"] += 1
            if d is not None and d["throws"] is not None:
                stats["regex_complexity_discarded"] += 1
                if d["throws"] != "apply=0":
                    thrown_bad.append(c)
            continue
        samples = [c["merge"]] if c.get("merge") else [d["samples"][r] for r in range(len(c["rules"]))]
        qs = [q[0] for q in d["q"]]
        feed.append("%s %s %s %s %s" % (c["id"], ",".join(hx(s) for s in c["syls"]) or "_", ";".join(samples) or "_",
                                         ",".join(qs) or "_", ",".join(str(l) for l in c["limits"])))
        fed.append(c)
    rc2, mout, merr = vlib.sh2([rmodel], stdin="\n".join(feed) + "\n", timeout=900)
    model = {}
    for l in mout.split("\n"):
        f = l.split(" ")
        if len(f) >= 2:
            model.setdefault(f[0], []).append(l)

    mism, orac = [], []
    refstats = {"checked": 0, "applied": 0, "skipped": {}}
    nontrivial = set()
    samples_out = []
    for c in fed:
        d = impl[c["id"]]
        stats["cases"] += 1
        stats["utf8"] += 1 if c["utf8"] else 0
        ilines = [l for l in d["raw"] if l.split(" ")[1] in ("FLAGS", "SCRIPT", "PRISM", "Q")]
        mlines = model.get(c["id"], [])
        if ilines != mlines:
            first = next(((a, b2) for a, b2 in zip(ilines, mlines) if a != b2), (ilines[len(mlines):][:1], mlines[len(ilines):][:1]))
            mism.append((c, first))
        if c.get("merge"):
            stats["direct_merge_cases"] += 1
            stats["direct_merge_queries"] += len(d["q"])
            for k, lst in parse_script(d["script"][1]):
                for x in lst:
                    stats["direct_merge_types"][str(x[1])] = stats["direct_merge_types"].get(str(x[1]), 0) + 1
                    stats["direct_merge_tips"] += 1 if x[3] != "-" else 0
            continue
        for kkey, what, det in oracle(c, d, refstats):
            orac.append((c, kkey, what, det))
        # --- distribution
        final = parse_script(d["script"][1])
        for kind, f in c["rules"]:
            stats["rules"][kind] += 1
        syllabary = sorted(set(c["syls"]))
        prev = [(s, [(s, 0, "0", "-")]) for s in syllabary]
        for r, (kind, f) in enumerate(c["rules"]):
            t = sample_table(d["samples"][r])
            targets = {}
            for k, lst in prev:
                e = t.get(k)
                if e is None:
                    stats["rule_not_applied"] += 1
                    targets.setdefault(k, []).append({x[0] for x in lst})
                else:
                    stats["rule_applied"] += 1
                    if e[0] == b"":
                        stats["erased_to_empty" if kind == "erase" else "xform_to_empty"] += 1
                    if kind in NON_DELETING:
                        targets.setdefault(k, []).append({x[0] for x in lst})
                    if kind != "erase" and e[0] != b"":
                        targets.setdefault(e[0], []).append({x[0] for x in lst})
            for k, sets in targets.items():
                for i in range(len(sets)):
                    for j in range(i):
                        if sets[i] & sets[j]:
                            stats["same_syllable_collisions"] += 1
            prev = parse_script(d["rounds"][r])
        for k, lst in final:
            if len(lst) > 1:
                stats["multi_syllable_spellings"] += 1
            for x in lst:
                stats["types_seen"][str(x[1])] = stats["types_seen"].get(str(x[1]), 0) + 1
                if x[2].lstrip("-").isdigit():
                    stats["max_penalties"] = max(stats["max_penalties"], -int(x[2]))
        if d["script"][0] == "0":
            stats["algebra_not_applied"] += 1
        elif not final:
            stats["script_erased_entirely"] += 1
        keyset = {k for k, _ in final} if (d["script"][0] == "1" and final) else set(syllabary)
        if any(x >= 128 for k in keyset for x in k):
            stats["high_byte_alphabets"] += 1
        for q in d["q"]:
            stats["queries"] += 1
            qb = unhx(q[0])
            stats["query_is_key" if qb in keyset else "query_nonkey"] += 1
            obs = dict(x.split("=", 1) for x in q[1:])
            full = len(parse_pairs(obs["E0"]))
            if any(l and l < full for l in c["limits"]):
                stats["expand_cut_by_limit"] += 1
        if c["rules"] and d["script"][0] == "1":
            nontrivial.add((tuple(sorted(set(c["syls"]))), tuple(f for _, f in c["rules"])))
        if len(samples_out) < 6 and c["rules"] and len(final) > 2 and stats["cases"] % 37 == 0:
            samples_out.append({"syllables": [s.decode("utf8", "replace") for s in c["syls"]],
                                "formulas": [f.decode("utf8", "replace") for _, f in c["rules"]],
                                "script": d["script"][1][:400], "prism": d["prism"], "first_query": " ".join(d["q"][0]) if d["q"] else None})
    ctx.coverage.update({
        "evaluations": stats["cases"] + stats["queries"],
        "distinct_nontrivial": len(nontrivial),
        "rule": "one generated case = syllabary x rule list (six kinds, regexes from a small grammar: anchors, classes, groups, alternation, "
                "quantifiers, back-references; ASCII and UTF-8 alphabets) x queries (every spelling, every prefix of every spelling, "
                "one-byte extensions, random and mutated strings) x limits; non-trivial = distinct (syllabary, rule list) with at least one "
                "rule on which Projection::Apply reported a modification",
        "samples": samples_out,
        "distribution": stats,
        "corpus_cases": ncorpus,
        "rule_effects_vs_reference": refstats,
        "exhaustive": False,
        "correspondence_mismatches": len(mism),
        "oracle_failures_on_impl": len(orac),
        "mutation_drills": MUTATION_DRILLS,
    })

    # --- verdicts
    seen = set()
    for c, kkey, what, det in orac:
        if kkey in seen:
            continue
        seen.add(kkey)
        ctx.violation("oracle:" + kkey, what,
                      {"syllabary": [s.decode("utf8", "replace") for s in c["syls"]], "syllabary_hex": [hx(s) for s in c["syls"]],
                       "formulas": [f.decode("utf8", "replace") for _, f in c["rules"]], "details": det,
                       "case_line": case_line(c),
                       "how": "echo '<case_line>' | %s /var/tmp/c09-replay   (prints the script after each round, the final script "
                              "and every query result of the real Projection/Prism)" % exe,
                       "observed": impl[c["id"]]["raw"][:60]}, found_input=True)
    for c in thrown_bad[:1]:
        ctx.violation("oracle:throw-not-reported", "a calculation threw but Projection::Apply reported success",
                      {"case_line": case_line(c), "formulas": [f.decode("utf8", "replace") for _, f in c["rules"]]}, found_input=True)
    if mism and not orac:
        c, first = mism[0]
        ctx.violation("correspondence:c09", "extracted model and implementation disagree",
                      {"case_line": case_line(c), "formulas": [f.decode("utf8", "replace") for _, f in c["rules"]],
                       "implementation": first[0], "model": first[1], "mismatching_cases": len(mism)}, found_input=False)
    if not proof_ok and not orac:
        ctx.violation("proof:Properties_C09", "a proof obligation of Properties_C09.v no longer checks",
                      {"failed": res["failed"], "forbidden": res.get("forbidden"),
                       "log_tail": res["log"][-3000:] + ((res["props"] or {}).get("log", "")[-3000:])}, found_input=False)
    if stats["cases"] < ncases * 0.8:
        ctx.violation("generator:c09", "fewer than 80%% of the generated cases were usable (%d of %d; %d refused by Projection::Load)"
                      % (stats["cases"], ncases, stats["loadfail"]), {"stderr": err[-2000:]}, found_input=False)


MANIFEST = {
    "category": "proof",
    "technique": "Coq theorems (induction over rule lists, key lists and the search loops) over a Gallina port of Script::AddSyllable/Merge, "
                 "Projection::Apply, Prism::Build and the four prism queries + extracted-model/implementation correspondence in which the "
                 "regex effect of every calculation is sampled from the implementation",
    "text": "Properties_C09.v proves, for all syllabaries and all lists of calculations whose per-string effect is an ARBITRARY function "
            "(so for every regular expression): every spelling of the resulting script is non-empty, has a non-empty list and denotes only "
            "syllables of the syllabary; a non-deleting rule (derive/fuzz/abbrev - the flags are compared with the implementation's) keeps "
            "every (spelling, syllable) pair with type no worse and credibility no lower; a syllable loses its own-name spelling only if a "
            "deleting rule of the list matches its name (and otherwise keeps it as a normal spelling); the script is a strictly sorted map. "
            "For the prism built from any script: GetValue returns the rank of a spelling in map order and fails for every other string, "
            "QuerySpelling of that id returns exactly the script's descriptors (syllable id = rank in the syllabary, type, credibility "
            "through the abstract float cast, tips); CommonPrefixSearch equals the list of (id, length) of the query's prefixes that are "
            "keys; the coded ExpandSearch loop (FIFO queue, stored alphabet order, early return at the limit) never exhausts the model's fuel "
            "and equals an explicit specification (exact key, then level by level in alphabet-lexicographic order, cut at the limit), whose "
            "members are exactly the keys extending the query. Non-vacuity examples are computed. Every run re-checks the proofs, samples "
            "Calculation::Apply of the current /repo for every (rule, spelling) pair, and diffs Script, flags, prism shape and all four "
            "queries (every key, every prefix, extensions, random strings, several limits) of the real Projection/Prism (after Save+Load) "
            "against the extracted model; the property's clauses are also evaluated directly on the implementation's outputs, and every "
            "sampled (rule, spelling) effect is compared with an independent python-re reference of the six rule kinds (formulas outside the "
            "shared regex subset are skipped and counted).",
    "note": "Print Assumptions: closed under the global context for all theorems (no axioms; coqchk -o agrees in the thorough tier). "
            "Trusted/modelled, not verified: boost::regex and the xlit map (arbitrary function in the proofs, sampled oracle in the "
            "correspondence); darts-clone (abstract trie of residual key sets) and the mapped-file byte layout incl. Save/Load (identity in "
            "the model) - both exercised only by the harness; double arithmetic on credibilities (carried as exact penalty counts; the "
            "harness decodes by exact equality with the iterated sum and its float cast); the runtime_error exit of Projection::Apply "
            "(cases where boost::regex throws are discarded after checking that Apply reports failure); NUL-free, non-empty syllables; "
            "ExtrOcamlBasic extraction and the OCaml/C++/python glue. The correspondence is testing and only validates the model.",
}
