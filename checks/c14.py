"""C14 - config compiler: includes copy, patches apply in order, sources stay untouched.

proof:  Properties_C14.v (edit_node algebra, dependency ordering, plain_fixed,
        sources_untouched, termination, impl_refines_spec_partial).
tie:    correspondence - generated document sets are compiled by the real
        rime::ConfigBuilder (production plugin chain, several orders in one
        process, in memory and as saved to the staging dir) and by the two
        extracted Coq models (compile_spec, compile_impl).
search: compile_spec is the property's oracle; a document set on which
        librime's tree differs from it is the replay.
"""
import json
import os
import random
import sys

import vlib

sys.path.insert(0, os.path.join(vlib.VERIF, "gen"))
import c14_docs as G  # noqa: E402

LEVEL = "proof"
SPEC_FUEL = 40


def walk_fuel(docs):
    """fuel for walks down the heap (MergeTree recursion, readback): trees can only get as deep as all documents stacked"""
    return 10 + sum(G.count_nodes(y) for y in docs.values())


MUTATION_DRILLS = [
    # each: applied in the scratch worktree /var/tmp/wt-c14 (at /repo HEAD 89053cb), `VERIF_REPO=/var/tmp/wt-c14
    # VERIF_CACHE=/var/tmp/rime-verif-c14 bin/check C14 quick`; the repository's own 87 gtests were run on the same mutated tree
    {"mutation": "config_cow_ref.h ConfigCowRef::SetItem: copy the container only when it is null (write in place otherwise)",
     "existing_tests": "4 config tests fail", "fired": "VIOLATION source-changed:* and spec-mismatch:* with the document set (found input)"},
    {"mutation": "config_compiler.cc ParseList: walk the __patch list from the last element to the first",
     "existing_tests": "RimeConfigCompilerTest.PatchList fails", "fired": "VIOLATION spec-mismatch:patch+append ... (found input)"},
    {"mutation": "config_compiler.cc InsertByPriority: std::lower_bound instead of upper_bound (reverses the order inside a class)",
     "existing_tests": "RimeConfigCompilerTest.PatchList fails", "fired": "VIOLATION spec-mismatch:* (found input)"},
    {"mutation": "config_compiler.cc AppendToList: start from an empty list instead of a copy of the existing one (/+ replaces)",
     "existing_tests": "4 merge tests fail", "fired": "VIOLATION spec-mismatch:include+patch+append ... (found input)"},
    {"mutation": "config_data.cc ResolveListIndex: @before N resolves to N+1",
     "existing_tests": "RimeConfigListKeyPathTest.Greetings fails", "fired": "VIOLATION spec-mismatch:include+patch+index (found input), impl-model-mismatch"},
    {"mutation": "config_compiler.cc IncludeReference::Resolve: a missing optional include is an error",
     "existing_tests": "all 87 pass", "fired": "VIOLATION spec-mismatch:* / saved-file-differs:* (found input)"},
    {"mutation": "config_compiler.cc PatchReference::Resolve: a missing optional patch is an error",
     "existing_tests": "all 87 pass", "fired": "VIOLATION spec-mismatch:* / saved-file-differs:* (found input)"},
    {"mutation": "config_compiler_impl.h: kInclude = 2, kPatch = 1 (patches before includes)",
     "existing_tests": "RimeConfigMergeTest.AppendWithPatch fails", "fired": "VIOLATION spec-mismatch:* (found input)"},
    {"mutation": "auto_patch_config_plugin.cc: add the automatic .custom patch even when the root has an explicit __patch",
     "existing_tests": "all 87 pass", "fired": "VIOLATION spec-mismatch:*custom*, source-changed:* (found input)"},
    {"mutation": "config_compiler.cc IsMerging: ignore the /= suffix (replace merges instead)",
     "existing_tests": "all 87 pass", "fired": "VIOLATION spec-mismatch:*replace* (found input)"},
    {"mutation": "config_compiler.cc IncludeReference::Resolve: merge the included map over the local keys (included wins)",
     "existing_tests": "2 tests fail", "fired": "VIOLATION spec-mismatch:include (found input)"},
    {"mutation": "seeded change C14-1: GetResolvedItem appends the index spelling used in the reference (@last, @01, @before N) to node_path "
                 "instead of FormatListIndex(index), so the addressed list element's own directives are not resolved before it is copied",
     "existing_tests": "all pass (as delivered)", "first_run": "missed by quick (no reference went through a non-canonical spelling to an element with directives)",
     "fired": "after adding the families index-spelling:* (every spelling x before/after the list x include/patch reference x local/cross-file via a .custom "
              "document) and non-canonical spellings in random reference paths: VIOLATION spec-mismatch:include+patch+index (found input, e.g. "
              "targeted:index-spelling:@00:before:local)"},
    {"mutation": "seeded change C14-2: ConfigCowRef<T>::CopyOnWrite returns the container itself when it is empty, so a shared empty []/{} of an "
                 "included node is written in place",
     "existing_tests": "all pass (as delivered)", "first_run": "only impl-model-mismatch, no failing input",
     "fired": "after adding the families empty-container:* (empty list/map inside an included node written through by patch paths, patch lists and "
              "sibling merges, observed by a second includer, an include of the whole source and a sub-node include) and empty maps in random "
              "documents: VIOLATION spec-mismatch:* on five families and source-changed:* on a random set (found input)"},
    {"mutation": "build_info_plugin.cc before 24599a7 (unchanged tree at the time): __build_info written in place into a shared root map",
     "existing_tests": "all pass", "fired": "VIOLATION source-changed:* (found input) - genuine defect, fixed"},
    {"mutation": "config_cow_ref.h before 153d253 (unchanged tree at the time): a copied ConfigCowRef re-resolved its container through the parent",
     "existing_tests": "all pass", "fired": "VIOLATION source-changed:include+patch+append+index on the targeted family index-shift:nested-merge (found input) - "
                                            "genuine defect predicted by the ownership obligation of the lifted frame theorem, fixed"},
    {"mutation": "config_compiler.cc before 76ec084 (unchanged tree at the time): AppendToList wrote twice through one cow reference",
     "existing_tests": "all pass", "fired": "VIOLATION spec-mismatch:include+patch+append+index on the targeted family index-shift (found input) - genuine defect, "
                                            "predicted by the ownership invariant of the frame proof failing for '@before last', fixed"},
    {"mutation": "config_compiler.cc before 89053cb (unchanged tree at the time): `loaded` checked only on the first reference to a missing resource",
     "existing_tests": "all pass", "fired": "VIOLATION spec-mismatch:include+patch+custom on the targeted family custom-without-base (found input) - genuine defect, fixed"},
]


def build_tools():
    okm, logm = vlib.coq_make(["CfgC/Spec.vo", "CfgC/Impl.vo", "Base/Bytes.vo"])
    if not okm:
        return None, None, logm
    rmodel = vlib.ocaml_build("c14", "Extract_C14.v", os.path.join(vlib.VERIF, "ocaml", "c14", "driver.ml"))
    b = vlib.librime_build("asan")
    exe = vlib.cxx_build(os.path.join(vlib.WORK, "bin", "c14"), [os.path.join(vlib.VERIF, "harness", "c14", "c14.cc")],
                         flags="-I%s/src" % b, libs="-L%s/lib -lrime -lglog -Wl,-rpath,%s/lib" % (b, b))
    return rmodel, exe, ""


def orders_for(ids, rng, n):
    out = [list(ids), list(reversed(ids))]
    for _ in range(max(0, n - 2)):
        p = list(ids)
        rng.shuffle(p)
        out.append(p)
    seen, res = set(), []
    for o in out[:n]:
        if tuple(o) not in seen:
            seen.add(tuple(o))
            res.append(o)
    return res


def make_cases(sets, seed, norders):
    """sets: list of (docs dict).  Returns (harness input, model input, per-set orders)."""
    hin, min_, meta = [], [], []
    for si, docs in enumerate(sets):
        rng = random.Random("c14-orders:%d:%d" % (seed, si))
        ids = list(docs)
        hin.append("SET %d" % si)
        min_.append("SET %d" % si)
        for d, y in docs.items():
            hin.append("DOC %s %s" % (d, G.to_yaml(y).encode().hex() or "-"))
            min_.append("DOC %s %s" % (d, " ".join(G.tokens(y))))
        orders = orders_for(ids, rng, norders)
        for o in orders:
            hin.append("ORDER " + " ".join(o))
        for d in ids:
            hin.append("DIRECT " + d)
            min_.append("SPEC %d %s" % (SPEC_FUEL, d))
            min_.append("IMPL %d auto %s" % (walk_fuel(docs), d))
        hin.append("END")
        min_.append("END")
        meta.append(orders)
    return "\n".join(hin) + "\n", "\n".join(min_) + "\n", meta


def run_pair(ctx, rmodel, exe, sets, norders, tag):
    work = ctx.scratch("c14-" + tag)
    hin, min_, meta = make_cases(sets, ctx.seed, norders)
    rc, out, err = vlib.sh2([exe, work], stdin=hin, timeout=1500,
                            env={"ASAN_OPTIONS": "detect_leaks=0:abort_on_error=0", "UBSAN_OPTIONS": "print_stacktrace=1"})
    rc2, mout, merr = vlib.sh2([rmodel], stdin=min_, timeout=1500)
    return rc, out, err, rc2, mout, merr, meta


def parse_impl(out):
    """-> per set: dict with O, A, D, R, L observations"""
    res = {}
    for l in out.split("\n"):
        f = l.split(" ")
        if not f or not f[0]:
            continue
        if f[0] == "O":
            s = res.setdefault(int(f[1]), {"O": [], "A": [], "D": {}, "R": {}, "L": {}, "ended": False})
            s["O"].append((int(f[2]), int(f[3]), f[4], f[6], f[8]))
        elif f[0] == "A":
            s = res.setdefault(int(f[1]), {"O": [], "A": [], "D": {}, "R": {}, "L": {}, "ended": False})
            s["A"].append((int(f[2]), int(f[3]), f[4], f[6]))
        elif f[0] == "D":
            s = res.setdefault(int(f[1]), {"O": [], "A": [], "D": {}, "R": {}, "L": {}, "ended": False})
            s["D"][f[2]] = (f[4], f[5])
        elif f[0] == "R":
            s = res[int(f[1])]
            s["R"].setdefault(f[2], {})[f[3]] = (f[4], f[5])
        elif f[0] == "L":
            s = res[int(f[1])]
            s["L"].setdefault(f[2], {})[f[3]] = (f[4], f[5])
        elif f[0] == "E":
            res.setdefault(int(f[1]), {"O": [], "A": [], "D": {}, "R": {}, "L": {}, "ended": False})["ended"] = True
    return res


def parse_model(mout):
    res = {}
    for l in mout.split("\n"):
        f = l.split(" ")
        if f[0] == "I":
            res.setdefault(int(f[1]), {"S": {}, "I": {}, "IR": {}, "IL": {}})["I"][f[2]] = dict(
                loaded=f[3], linked=f[4], oof=f[5][0] == "1", woof=f[5][1] == "1", ub=f[5][2] == "1", tree=f[6])
        elif f[0] == "IR":
            res[int(f[1])]["IR"].setdefault(f[2], {})[f[3]] = (f[4], f[5])
        elif f[0] == "IL":
            res[int(f[1])]["IL"].setdefault(f[2], {})[f[3]] = (f[4], f[5])
        elif f[0] == "S":
            res.setdefault(int(f[1]), {"S": {}, "I": {}, "IR": {}, "IL": {}})["S"][f[2]] = dict(loaded=f[3] == "1", linked=f[4] == "1",
                                                                    err=f[5][0] == "1", cyc=f[5][1] == "1", oof=f[5][2] == "1", tree=f[6])
    return res


def expected_mem(tree_canon):
    return G.unparse_canon(G.observed_root(G.parse_canon(tree_canon)))


def docs_json(docs):
    return {d: G.to_yaml(y) for d, y in docs.items()}


def compare_set(si, docs, impl, model, stats, mode=""):
    """yield (key, what, replay, found_input) for one document set"""
    if impl is None or not impl.get("ended"):
        yield ("harness-incomplete", "the harness did not finish this document set (crash / sanitizer report?)",
               {"set": si, "documents": docs_json(docs)}, True)
        return
    spec = model["S"] if model else {}
    # 1. the same document compiles to the same tree whatever was compiled before it in this process,
    #    and an earlier result is not changed by later compilations (component cache shares ConfigData)
    by_doc = {}
    for (o, pos, d, mem, file) in impl["O"]:
        by_doc.setdefault(d, []).append((o, pos, mem, file))
    after = {(o, pos): mem for (o, pos, d, mem) in impl["A"]}
    for d, obs in by_doc.items():
        mems = {m for (_, _, m, _) in obs}
        if len(mems) > 1:
            yield ("order-dependent:" + shape_key(docs), "the compiled tree of '%s' depends on what was compiled before it in the same process" % d,
                   {"set": si, "documents": docs_json(docs), "document": d, "trees": [G.pretty(G.parse_canon(m)) for m in sorted(mems)]}, True)
        for (o, pos, m, _) in obs:
            if after.get((o, pos)) != m:
                yield ("changed-by-later-compile:" + shape_key(docs), "the compiled tree of '%s' changed while other documents were compiled" % d,
                       {"set": si, "documents": docs_json(docs), "document": d, "order": o,
                        "before": G.pretty(G.parse_canon(m)), "after": G.pretty(G.parse_canon(after.get((o, pos), "~")))}, True)
        # DIRECT (own compiler with the same plugin classes) must agree with the component
        dd = impl["D"].get(d)
        if dd and dd[1] not in mems:
            yield ("plugin-chain-differs", "a ConfigCompiler with the plugin classes of core_module.cc in the harness's order gives another tree than the config_builder component",
                   {"set": si, "documents": docs_json(docs), "document": d}, False)
    # 1c. (round 4) a bare include of a node of ANOTHER document is a copy of that node as the other document compiles it -
    #     judged on the implementation's own two results (no specification involved), whatever else the including document
    #     includes before it
    def sub(tree, keys):
        for k in keys:
            if tree is None or tree[0] != 'M':
                return "absent"
            hit = [v for (hk, v) in tree[1] if hk == k.encode().hex()]
            if not hit:
                return "absent"
            tree = hit[0]
        return tree
    # judged on the family built for it only: in randomly generated sets the other document may be cyclic or erroneous (best
    # effort), or the included map may carry keys with path syntax ('a/b', '@after last'), which an include re-interprets
    for (d, key, other, path) in (G.bare_xdoc_includes(docs) if mode.startswith("targeted:xdoc-include") else []):
        if d not in by_doc or other not in by_doc or len({m for (_, _, m, _) in by_doc[other]}) != 1:
            continue
        stats["xdoc_include_checks"] = stats.get("xdoc_include_checks", 0) + 1
        theirs = sub(G.parse_canon(by_doc[other][0][2]), path)
        for (o, pos, m, _) in by_doc[d]:
            mine = sub(G.parse_canon(m), [key])
            if theirs != "absent" and mine != theirs:
                yield ("include-is-not-a-copy-of-the-compiled-node:" + shape_key(docs),
                       "'%s:/%s' includes '%s:/%s' but is not a copy of that node as '%s' compiles it" % (d, key, other, "/".join(path), other),
                       {"set": si, "documents": docs_json(docs), "document": d, "order": o,
                        "included_as": G.pretty(mine) if mine != "absent" else "absent", "compiled_node": G.pretty(theirs)}, True)
                break
    # 1b. the heap model of the implemented algorithm agrees with librime on every set (cyclic and erroneous included)
    for d in docs:
        mi = (model or {}).get("I", {}).get(d)
        dd = impl["D"].get(d)
        if mi is None or dd is None:
            continue
        stats["impl_model_runs"] = stats.get("impl_model_runs", 0) + 1
        if mi["oof"] or mi["woof"] or mi["ub"]:
            yield ("impl-model-exhausted:%s%s%s" % (int(mi["oof"]), int(mi["woof"]), int(mi["ub"])),
                   "compile_impl reports fuel exhaustion / undefined behaviour on this set",
                   {"set": si, "documents": docs_json(docs), "document": d, "flags": mi}, False)
            continue
        bad = None
        if (mi["linked"], mi["tree"]) != dd:
            bad = ("target", dd, (mi["linked"], mi["tree"]))
        else:
            for rid, obs in impl["R"].get(d, {}).items():
                if model["IR"].get(d, {}).get(rid) != obs:
                    bad = ("resource " + rid, obs, model["IR"].get(d, {}).get(rid))
                    break
            if bad is None:
                for rid, obs in impl["L"].get(d, {}).items():
                    if model["IL"].get(d, {}).get(rid) != obs:
                        bad = ("relinked " + rid, obs, model["IL"].get(d, {}).get(rid))
                        break
        if bad:
            yield ("impl-model-mismatch:" + diff_key(docs, d), "compile_impl (the heap model of the implemented algorithm) and librime disagree on " + bad[0],
                   {"set": si, "documents": docs_json(docs), "document": d, "where": bad[0],
                    "librime": [bad[1][0], G.pretty(G.parse_canon(bad[1][1]))] if bad[1] else None,
                    "compile_impl": [bad[2][0], G.pretty(G.parse_canon(bad[2][1]))] if bad[2] else None}, False)
        else:
            stats["impl_model_agree"] = stats.get("impl_model_agree", 0) + 1
    # 2. the property's equality on runs the specification classifies as clear
    for d, obs in by_doc.items():
        sp = spec.get(d)
        if sp is None:
            continue
        o, pos, mem, file = obs[0]
        cls = "clear" if not (sp["err"] or sp["cyc"] or sp["oof"]) else ("oof" if sp["oof"] else "cyclic" if sp["cyc"] else "error")
        if cls == "clear":
            # the property's equality is about acyclic (and well-formed) *sets*: every document this one reads must be clear too
            for x in ref_closure(docs, d):
                sx = spec.get(x)
                if sx is not None and (sx["err"] or sx["cyc"]):
                    cls = "reads-cyclic-or-erroneous"
                    break
        stats["class:" + cls] = stats.get("class:" + cls, 0) + 1
        fam = ":".join(mode.split(":")[:2]) if mode.startswith("targeted:") else mode.split(":")[0]
        byf = stats.setdefault("by_family", {}).setdefault(fam, {})
        byf[cls] = byf.get(cls, 0) + 1
        if sp["oof"]:
            yield ("spec-out-of-fuel", "compile_spec ran out of fuel (check parameter too small)", {"set": si, "document": d, "documents": docs_json(docs)}, False)
            continue
        if cls != "clear":
            continue
        want = expected_mem(sp["tree"])
        if mem != want and G.has_mid_path_insert(docs):
            # an inserting index form before the last path component reads one element and writes another; what the
            # target should look like is not fixed by the property - only that the documents it reads stay untouched
            stats["class:clear"] -= 1
            stats["class:mid-path-insert"] = stats.get("class:mid-path-insert", 0) + 1
            mem = want
            obs = [(o2, p2, want, f2) for (o2, p2, m2, f2) in obs]
            sp = dict(sp, linked=False)
        if mem != want:
            yield ("spec-mismatch:" + diff_key(docs, d), "the compiled tree of '%s' differs from the specification (includes copied, patches in order)" % d,
                   {"set": si, "documents": docs_json(docs), "document": d,
                    "librime": G.pretty(G.parse_canon(mem)), "compile_spec": G.pretty(G.parse_canon(want)),
                    "how": "write the documents into a user data dir and compile '%s' with the config_builder component (harness/c14/c14.cc, ORDER %s)" % (d, d)}, True)
            continue
        stats["equal"] = stats.get("equal", 0) + 1
        if sp["linked"]:
            wantf = G.unparse_canon(G.saved_form(G.parse_canon(want)))
            for (o2, p2, m2, f2) in obs:
                if f2 != wantf:
                    yield ("saved-file-differs:" + diff_key(docs, d), "the file written to the staging dir for '%s' does not hold the compiled tree" % d,
                           {"set": si, "documents": docs_json(docs), "document": d, "file": f2, "expected": wantf}, True)
                    break
        # 3. the other resources of the same compiler, linked afterwards, still compile to their own specification
        for rid, (ok, tree) in impl["L"].get(d, {}).items():
            sp2 = spec.get(rid)
            if sp2 is None or sp2["err"] or sp2["cyc"] or sp2["oof"]:
                continue
            if any((spec.get(x) or {}).get("err") or (spec.get(x) or {}).get("cyc") for x in ref_closure(docs, rid)):
                continue
            stats["relinked"] = stats.get("relinked", 0) + 1
            if tree != expected_mem(sp2["tree"]):
                yield ("source-changed:" + diff_key(docs, d), "after compiling '%s', the document '%s' it reads no longer compiles to its own result" % (d, rid),
                       {"set": si, "documents": docs_json(docs), "document": d, "read_document": rid,
                        "librime": G.pretty(G.parse_canon(tree)), "compile_spec": G.pretty(G.parse_canon(expected_mem(sp2["tree"])))}, True)


def direct_refs(d, y):
    """document ids named by the directives of document d (syntactic over-approximation)"""
    out = set()

    def ref(sv):
        q = sv.rstrip("?")
        if ":" in q and not q.startswith(":"):
            r = q.split(":", 1)[0]
            out.add(r[:-5] if r.endswith(".yaml") else r)

    def walk(n):
        if n[0] == "L":
            for x in n[1]:
                walk(x)
        elif n[0] == "M":
            for k, v in n[1]:
                if k == "__include" and v[0] == "S":
                    ref(v[1])
                elif k == "__patch":
                    for e in (v[1] if v[0] == "L" else [v]):
                        if e[0] == "S":
                            ref(e[1])
                elif k == "import_preset" and v[0] == "S":
                    out.add(v[1])
                walk(v)
    walk(y)
    out.add((d[:-7] if d.endswith(".schema") else d) + ".custom")
    if d.endswith(".schema"):
        out.add("default")
    return out


def ref_closure(docs, d):
    seen, todo = set(), [d]
    while todo:
        x = todo.pop()
        if x in seen or x not in docs:
            continue
        seen.add(x)
        todo += list(direct_refs(x, docs[x]))
    return seen


def shape_key(docs):
    return "docs=%d" % len(docs)


def diff_key(docs, d):
    """a coarse class of the failing input: which directive kinds the set uses"""
    if G.has_directive_directly_in_patch_literal(docs):
        return "directive-directly-in-patch-literal"
    txt = " ".join(G.to_yaml(y) for y in docs.values())
    feats = []
    for name, pat in (("include", "__include"), ("patch", "__patch"), ("append", "/+"), ("replace", "/="),
                      ("index", "@"), ("custom", None), ("schema", None)):
        if pat is None:
            if any(x.endswith("." + name) for x in docs):
                feats.append(name)
        elif pat in txt:
            feats.append(name)
    return "+".join(feats) or "plain"


def run(ctx):
    ctx.coverage["trusted_base"] = [
        "Coq 8.16.1 kernel + vm_compute; no native_compute",
        "extraction: ExtrOcamlBasic only; ocaml/common/glue*.ml + ocaml/c14/driver.ml are parsing/printing glue",
        "harness/c14/c14.cc on the ASan+UBSan build of /repo's working tree (core module's config_builder component)",
        "gen/c14_docs.py writes the YAML text (double-quoted flow scalars) and the token stream of the same document",
        "yaml-cpp parses the generated text into the node structure the generator intended",
    ]
    ctx.assumptions += [
        "correspondence is differential testing on generated document sets; it validates model = code, it is not the proof",
        "map-rooted documents (a non-map root is replaced by the build-info map by BuildInfoPlugin)",
    ]
    res = vlib.proof_stage(ctx)
    proof_ok = res["ok"]
    rmodel, exe, log = build_tools()
    if rmodel is None:
        ctx.violation("model-does-not-compile", "coq/CfgC does not compile", {"log": log[-4000:]}, found_input=False)
        return
    nrandom = 150 if ctx.tier == "quick" else 7000
    norders = 2 if ctx.tier == "quick" else 3
    sets, feats, modes = [], {}, []
    cdir = os.path.join(vlib.VERIF, "corpus", "C14")
    for fn in sorted(os.listdir(cdir)) if os.path.isdir(cdir) else []:
        if fn.endswith(".json"):
            sets.append(G.from_json(json.load(open(os.path.join(cdir, fn)))["docs"]))
            modes.append("corpus:" + fn[:-5])
    for name, docs in G.targeted_sets(ctx.seed):
        sets.append(docs)
        modes.append("targeted:" + name)
    for i in range(nrandom):
        mode = "acyclic" if (i % 5) < 3 else "cyclic"
        docs, ft = G.gen_set(ctx.seed, i, mode)
        sets.append(docs)
        modes.append(mode)
        for k, v in ft.items():
            feats[k] = feats.get(k, 0) + v
    nsets = len(sets)
    rc, out, err, rc2, mout, merr, meta = run_pair(ctx, rmodel, exe, sets, norders, "main")
    impl, model = parse_impl(out), parse_model(mout)
    stats = {}
    nviol = 0
    if rc != 0:
        ctx.violation("harness-abort", "the config compiler harness ended abnormally rc=%d (sanitizer report or crash)" % rc,
                      {"stderr": err[-6000:], "last_set": max(impl) if impl else None,
                       "documents": docs_json(sets[max(impl)]) if impl else None}, found_input=True)
    if rc2 != 0:
        ctx.violation("model-abort", "the extracted model runner failed", {"stderr": merr[-3000:]}, found_input=False)
    seen = set()
    for si, docs in enumerate(sets):
        for key, what, replay, found in compare_set(si, docs, impl.get(si), model.get(si), stats, modes[si]):
            if key in seen:
                continue
            seen.add(key)
            replay["mode"] = modes[si]
            ctx.violation(key, what, replay, found_input=found)
            nviol += 1
    ctx.coverage.update({
        "evaluations": sum(len(d) for d in sets),
        "document_sets": nsets, "orders_per_set": norders,
        "sets_by_origin": {k: sum(1 for m in modes if m.split(":")[0] == k) for k in ("corpus", "targeted", "acyclic", "cyclic")},
        "distinct_nontrivial": stats.get("equal", 0),
        "rule": "documents whose compile_spec run is clear (acyclic, no error) AND whose librime tree equals compile_spec; "
                "every generated document has at least one directive-bearing set around it",
        "classification": {k: v for k, v in stats.items() if k != "by_family"},
        "classification_by_family": stats.get("by_family", {}),
        "generator_features": dict(sorted(feats.items())),
        "samples": [{"mode": modes[i], "documents": docs_json(sets[i])} for i in (0, 2, 9, 35, 36, 40) if i < nsets],
        "mutation_drills": MUTATION_DRILLS,
    })
    if not proof_ok and not ctx.violations:
        ctx.violation("proof:Properties_C14", "a proof obligation of Properties_C14.v no longer checks",
                      {"failed": res["failed"], "forbidden": res.get("forbidden"),
                       "log_tail": res["log"][-3000:] + ((res["props"] or {}).get("log", "")[-3000:])}, found_input=False)


MANIFEST = {
    "category": "proof",
    "technique": "Coq models (pure specification + heap model of the implemented algorithm) with theorems, extracted and diffed against the real ConfigBuilder on generated document sets",
    "text": "Properties_C14.v: (1) dependency ordering - for every sequence of insertions the per-path list is pending children, then includes, "
            "then patches, each class in insertion order; (2) node editor algebra on trees of any size - set-then-get, last write wins, "
            "@before/@after insertion, append associativity for lists and strings, idempotence of merging plain entries; (3) a directive-free "
            "document compiles to itself (specification; for the implemented ConvertFromYaml: no dependency registered, region reads back as the "
            "document); (4) no write through sharing - for the whole of ResolveDependencies on every document set (nested compilations included) a pre-existing node changes only if it is the container of the target slot of a pending dependency, so a tree holding no such container (a compiled document, an included source) reads back unchanged (C14_no_write_through_sharing, C14_sources_untouched; per edit, for any patch map and any include with sibling keys: C14_patch/include_writes_only_its_slot); "
            "(5) termination for ALL "
            "document sets, cyclic included - ResolveDependencies of compile_impl (port of Compile/Link with the production plugin chain) never "
            "exhausts fuel above the explicit bound 2*(5+#scalars)*(1+max #nodes), by the duplicate-free resolve chain inside a static path universe; "
            "(6) compile_impl = compile_spec computed on the repository's fixtures.  Tie: both models are extracted and diffed on every run against the "
            "real config_builder component (production plugins, several compile orders in one process, memory tree and saved file) over generated "
            "document sets from the directive grammar; compile_spec is the oracle of the failing-input search.",
    "note": "Partial: impl_refines_spec is proved only on computed fixtures (C14_impl_refines_spec_full is stated, not proved; the general claim rests on "
            "the correspondence of both extracted models with librime); sources_untouched is proved on heap nodes for ResolveDependencies (the link-time plugin edits are covered per edit, not composed); "
            "termination is proved for the resolve recursion; the fuel of walks down the heap (MergeTree recursion, readback) is a separate flag whose "
            "sufficiency needs heap acyclicity, not proved (C14_compile_total_full stated). 'Cyclic' is the specification's own flag (a reference into a node "
            "under compilation whose own directives are not vacuous); for such sets and for erroneous sets only termination and agreement with compile_impl "
            "are compared. Trusted: Coq kernel + vm_compute, ExtrOcamlBasic extraction and the OCaml/C++/Python glue, yaml-cpp's parsing of the generated "
            "double-quoted flow YAML. No axioms (Print Assumptions: all closed).",
}
