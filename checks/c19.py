"""C19 - key names and key sequences round-trip through their textual form.

proof:  Properties_C19.v over the key tables regenerated from src/rime/key_table.cc
        (gen/key_table.py -> coq/Gen/KeyTable.v): table sweep + structural
        round-trip theorems (all named masks, all named keys, sequences of any
        length) + parser soundness.
tie:    translator + correspondence of the extracted model (ocaml/c19) with the
        real KeyEvent/KeySequence/RimeGet* code (harness/c19, compiled from
        key_event.cc + key_table.cc of the current tree under ASan+UBSan) on the
        same generated cases.
search: the property's own oracle (round trip inside the domain; accepted text
        names only known modifiers/keys) evaluated on the implementation's
        observations, independently of the model.
"""
import itertools
import os
import random
import sys

import vlib

sys.path.insert(0, os.path.join(vlib.VERIF, "gen"))
import key_table  # noqa: E402

LEVEL = "proof"

# files Properties_C19.v / Extract_C19.v depend on (transitively)
CONE = ("Base/Bytes.v", "Gen/KeyTable.v", "Key/KeyModel.v", "Key/KeyProofs.v", "Properties_C19.v", "Extract_C19.v")

ALPHABET = "aA+{}0 Shift"          # a A + { } 0 space S h i f t  (12 distinct characters)
MUTATION_DRILLS = [
    # each: scratch worktree /var/tmp/wt-c19 of /repo HEAD, one edit, then
    # VERIF_REPO=/var/tmp/wt-c19 VERIF_CACHE=/var/tmp/rime-verif-c19 bin/check C19 quick   (all compile; run 2026-09-29)
    {"mutation": "key_table.cc keys_by_keyval: swap the offsets of space/exclam ({0x000020, 0}, {0x000021, 6} -> {0x000020, 6}, {0x000021, 0})",
     "detected": True,
     "fired": "VIOLATION with failing input (key roundtrip:key:exclam, replay `K 33 0`: written 'exclam', parses back as keycode 32; "
              "66 failing key cases + sequences); C19_tables_wellformed no longer evaluates to true (proof stage broken)"},
    {"mutation": "key_table.cc key_names: drop the NUL after Return (\"Return\\0\" -> \"Return\")",
     "detected": True,
     "fired": "VIOLATION with failing input (roundtrip:key:* for every key whose name starts after the edit, e.g. KeyEvent(0xffbf) "
              "written '2' parses back as 50); sweep broken"},
    {"mutation": "key_event.cc KeySequence::Parse: `i + 1 < n` -> `i + 2 < n`",
     "detected": True,
     "fired": "VIOLATION with failing input (parser-accepts-unknown:seq, replay `Q 7b20`: '{ ' accepted; 172 oracle failures, 173 "
              "model/implementation differences); theorems unaffected (the tables did not change)"},
    {"mutation": "key_event.cc KeySequence::Parse: `i + 1 < n` -> `i + 1 <= n`",
     "detected": True,
     "fired": "VIOLATION ... no-failing-input-found (correspondence:c19:parse_exh, first difference `Q 7b`: the code now rejects a "
              "final '{', the model reads it as the character; 174 differences) - no property oracle fails, as the property does "
              "not require that text to parse"},
    {"mutation": "key_event.cc KeyEvent::repr: skip the Control slot (`if (!(k & 1) || i == 2) continue;`)",
     "detected": True,
     "fired": "VIOLATION with failing input (roundtrip:key:*, e.g. `K 48 1543512063` parses back with modifier 1543512059; 13232 "
              "oracle failures, 16565 differences)"},
    {"mutation": "key_table.cc RimeGetKeycodeByName: `!strcmp(name, key_names + p->offset)` -> `!strncmp(name, key_names + p->offset, 27)` "
                 "(27 = length of the longest name: every exact name still works, round trips intact; seeded change missed before the "
                 "near-miss stream existed)",
     "detected": True,
     "fired": "VIOLATION with failing input (lookup-accepts-unknown:key, replay `N 477265...7e`: RimeGetKeycodeByName("
              "'Greek_upsilonaccentdieresis~') = 0x7ba; also parser-accepts-unknown:key 'Greek_upsilonaccentdieresis~' and "
              "parser-accepts-unknown:seq 'a{Greek_upsilonaccentdieresis~}b'; 50 oracle failures / 50 differences, all in near_miss)"},
    {"mutation": "key_table.cc RimeGetModifierByName: `!strcmp(name, modifier_name[i])` -> `!strncmp(name, modifier_name[i], "
                 "strlen(modifier_name[i]))` (prefix match)",
     "detected": True,
     "fired": "VIOLATION with failing input (lookup-accepts-unknown:modifier, replay `M 536869667478`: RimeGetModifierByName('Shiftx') "
              "= 0x1; 528 oracle failures: near_miss 519, parse_rand 8, table 1)"},
    {"mutation": "key_table.cc: rename key_names -> key_names2 (behaviour unchanged; translator no longer finds the declaration)",
     "detected": True,
     "fired": "VIOLATION ... no-failing-input-found (proof:Properties_C19, translator refused -> translation_ok = false -> sweep false)"},
]


def hx(b):
    return b.hex() if b else "-"


def cstr_at(blob, off):
    j = blob.find(b"\0", off)
    return blob[off:] if j < 0 else blob[off:j]


class Domain:
    """The property's domain and oracle, from the translated tables only (no model, no code under test)."""

    def __init__(self, t):
        self.void = t["void"]
        blob = bytes(t["blob"])
        self.mod_names = {}
        for i, m in enumerate(t["mods"]):
            if m is not None:
                self.mod_names[bytes(m)] = i
        self.named_bits = sum(1 << i for i in self.mod_names.values())
        self.names_of = {}        # keyval -> [names] (keys_by_name order)
        for k, off in t["byname"]:
            self.names_of.setdefault(k, []).append(cstr_at(blob, off))
        self.key_names = {}       # name -> [keyvals] from keys_by_keyval
        for k, off in t["byval"]:
            self.key_names.setdefault(cstr_at(blob, off), []).append(k)
        self.named_keys = sorted(k for k in self.names_of if k != self.void)

    def named_mask(self, m):
        return m >= 0 and (m & ~self.named_bits) == 0

    def representable(self, k, m):
        return k in self.names_of and k != self.void and self.named_mask(m)

    def seq_representable(self, k, m):
        return self.representable(k, m) or (m == 0 and 0x20 <= k <= 0x7e and k not in (0x7b, 0x7d))

    def key_text_known(self, text):
        """text (len >= 2, NUL-free) names only known modifiers and a known key other than VoidSymbol"""
        toks = text.split(b"+")
        if any(t not in self.mod_names for t in toks[:-1]):
            return False
        return any(k != self.void for k in self.key_names.get(toks[-1], []))

    def seq_pieces(self, text):
        """the pieces of key-sequence notation: brace groups and single characters; None = unbalanced"""
        out, i, n = [], 0, len(text)
        while i < n:
            if text[i:i + 1] == b"{" and i + 1 < n:
                j = text.find(b"}", i + 1)
                if j < 0:
                    return None
                out.append(text[i + 1:j])
                i = j + 1
            else:
                out.append(text[i:i + 1])
                i += 1
        return out


def gen_cases(ctx, t, dom):
    rnd = random.Random(ctx.seed)
    thorough = ctx.tier == "thorough"
    blob = bytes(t["blob"])
    named_idx = sorted(dom.mod_names.values())
    unnamed_idx = [i for i in range(32) if i not in named_idx]
    cases, dist = [], {}

    def add(stream, line, indomain=False):
        cases.append((stream, line, indomain))
        dist[stream] = dist.get(stream, 0) + 1

    # --- table functions, entry by entry
    for k, off in t["byval"] + t["byname"]:
        add("table", "n %d" % k)
        add("table", "N %s" % hx(cstr_at(blob, off)))
    for i in range(32):
        add("table", "m %d" % ((1 << i) if i < 31 else -(1 << 31)))
        add("table", "m %d" % ((0x7fffffff >> i) << i))
    for nm in list(dom.mod_names) + [b"shift", b"Shif", b"Shiftx", b"", b"Ctrl", b"Release\0x"]:
        add("table", "M %s" % hx(nm))
    for nm in [b"", b"Space", b"spac", b"spacee", b"VoidSymbol", b"Return\0x", b"0x0041", b"\xff"]:
        add("table", "N %s" % hx(nm))
    for k in [0, 1, 31, 127, 128, 255, 256, -1, -2147483648, 2147483647, 0xffffff, 0x1000000, 0xfffffe, 0x10000, 0xffff, 0x1234]:
        add("table", "n %d" % k)

    # --- key events: every key code of the tables x masks
    def named_random():
        return sum(1 << i for i in named_idx if rnd.random() < rnd.choice((0.15, 0.5, 0.85)))

    def unnamed_random():
        m = named_random()
        for i in rnd.sample(unnamed_idx, rnd.randint(1, 3)):
            m |= 1 << i
        if m & (1 << 31):
            m -= 1 << 32
        return m

    n_rand, n_unnamed = (300, 50) if thorough else (14, 4)
    all_named = dom.named_bits
    keyvals = sorted(set(k for k, _ in t["byval"] + t["byname"]))
    for k in keyvals:
        masks = [0, all_named] + [1 << i for i in named_idx] + [named_random() for _ in range(n_rand)]
        for m in masks:
            add("key", "K %d %d" % (k, m), dom.representable(k, m))
        for _ in range(n_unnamed):
            add("key_outside", "K %d %d" % (k, unnamed_random()))
    # key codes without a name (hex form, "(unknown)", negative)
    for k in [0, 1, 31, 127, 128, 0x1234, 0xffff, 0x10000, 0xfffffe, 0x1000000, 0x7fffffff, -1, -255, -2147483648] + \
             [rnd.randrange(0, 1 << 24) for _ in range(200)] + [rnd.randrange(-(1 << 31), 1 << 31) for _ in range(100)]:
        for m in (0, 1, named_random(), unnamed_random()):
            add("key_outside", "K %d %d" % (k, m), dom.representable(k, m))

    # --- key sequences of representable events
    printable = [c for c in range(0x20, 0x7f)]
    single_named = [k for k in dom.named_keys if any(len(n) == 1 for n in dom.names_of[k])]

    def rand_event():
        r = rnd.random()
        if r < 0.30:
            return rnd.choice(printable), 0
        if r < 0.40:
            return rnd.choice((0x7b, 0x7d, 0x2b, 0x20)), rnd.choice((0, 0, 1, 4, named_random()))
        if r < 0.55:
            return rnd.choice(single_named), rnd.choice((0, named_random()))
        if r < 0.80:
            return rnd.choice(dom.named_keys), 0
        return rnd.choice(dom.named_keys), named_random()

    n_seq = 30000 if thorough else 4000
    for _ in range(n_seq):
        n = rnd.choice((0, 1, 1, 2, 3, 4, 6, 9, 14, 25))
        evs = [rand_event() for _ in range(n)]
        add("seq", "S %d %s" % (n, " ".join("%d %d" % e for e in evs)), all(dom.seq_representable(*e) for e in evs))
    for _ in range(n_seq // 8):
        n = rnd.randint(1, 6)
        evs = [rand_event() if rnd.random() < 0.6 else
               (rnd.choice((rnd.randrange(0, 1 << 24), dom.void, rnd.choice(printable), -rnd.randrange(1, 300))), unnamed_random() if rnd.random() < 0.5 else 0)
               for _ in range(n)]
        add("seq_outside", "S %d %s" % (n, " ".join("%d %d" % e for e in evs)), all(dom.seq_representable(*e) for e in evs))

    # --- parser: exhaustive short strings over the small alphabet, then random longer ones
    alpha = sorted(set(ALPHABET.encode()))
    maxlen = 4 if thorough else 3
    add("parse_exh", "P -")
    add("parse_exh", "Q -")
    for n in range(1, maxlen + 1):
        for tup in itertools.product(alpha, repeat=n):
            s = bytes(tup)
            add("parse_exh", "P %s" % hx(s))
            add("parse_exh", "Q %s" % hx(s))
    mod_list = sorted(dom.mod_names)
    name_list = sorted(dom.key_names)
    junk = [b"", b"+", b"{", b"}", b"{}", b" ", b"a", b"A", b"0", b"Shif", b"shift", b"Ctrl", b"nosuchkey", b"0x0041", b"(unknown)",
            b"VoidSymbol", b"\0", b"\xff", b"\x80", b"\xe4\xb8\xad", b"++", b"}{", b"{{", b"Shift\0x"]

    def rand_key_text():
        parts = []
        for _ in range(rnd.choice((0, 0, 1, 1, 2, 3, 5))):
            parts.append(rnd.choice(mod_list) if rnd.random() < 0.85 else rnd.choice(junk))
        last = rnd.choice(name_list) if rnd.random() < 0.8 else rnd.choice(junk)
        s = b"+".join(parts + [last])
        if rnd.random() < 0.08 and s:
            i = rnd.randrange(len(s))
            s = s[:i] + bytes([rnd.choice(alpha + [0, 0xff])]) + s[i + rnd.choice((0, 1)):]
        return s

    def rand_seq_text():
        out = b""
        for _ in range(rnd.choice((1, 2, 3, 5, 8, 12))):
            r = rnd.random()
            if r < 0.45:
                out += bytes([rnd.choice(printable)])
            elif r < 0.85:
                out += b"{" + rand_key_text() + b"}"
            elif r < 0.93:
                out += rnd.choice(junk)
            else:
                out += bytes([rnd.randrange(256)])
        return out

    n_txt = 20000 if thorough else 3000
    for _ in range(n_txt):
        add("parse_rand", "P %s" % hx(rand_key_text()))
        add("parse_rand", "Q %s" % hx(rand_seq_text()))
        if rnd.random() < 0.15:
            add("parse_rand", "Q %s" % hx(bytes(rnd.choice(alpha) for _ in range(rnd.randint(4, 40)))))
            add("parse_rand", "P %s" % hx(bytes(rnd.choice(alpha) for _ in range(rnd.randint(4, 40)))))

    # --- near misses of EVERY key name and EVERY modifier name of the translated tables, through every entry point:
    #     a lookup that compares too little (prefix, case-insensitive, trimmed ...) accepts one of these
    def variants(nm):
        vs = [nm + b"~", nm + b"x", nm + b"0", nm + b"xyz" * 11, nm[:-1], nm + b" ", b" " + nm]
        i = rnd.randrange(len(nm))
        c = nm[i]
        vs.append(nm[:i] + bytes([c + 1 if c < 0x7a else c - 1]) + nm[i + 1:])
        alpha_pos = [j for j in range(len(nm)) if chr(nm[j]).isalpha()]
        if alpha_pos:
            j = rnd.choice((alpha_pos[0], alpha_pos[-1], rnd.choice(alpha_pos)))
            vs.append(nm[:j] + bytes([nm[j] ^ 0x20]) + nm[j + 1:])
        return vs

    some_mod = lambda: rnd.choice(mod_list)
    for nm in name_list:
        for v in variants(nm):
            add("near_miss", "N %s" % hx(v))
            add("near_miss", "M %s" % hx(v))
            add("near_miss", "P %s" % hx(v))
            add("near_miss", "P %s" % hx(some_mod() + b"+" + v))
            add("near_miss", "Q %s" % hx(b"a{" + v + b"}b"))
            add("near_miss", "Q %s" % hx(b"{" + some_mod() + b"+" + v + b"}"))
    for nm in mod_list:
        for v in variants(nm):
            add("near_miss", "M %s" % hx(v))
            add("near_miss", "N %s" % hx(v))
            add("near_miss", "P %s" % hx(v + b"+a"))
            add("near_miss", "P %s" % hx(some_mod() + b"+" + v + b"+Return"))
            add("near_miss", "Q %s" % hx(b"a{" + v + b"+a}b"))
            add("near_miss", "Q %s" % hx(b"{" + v + b"+" + some_mod() + b"+space}"))

    # --- the witnesses of C19_outside_domain_refuted and the NUL-cut observation, replayed on the real code
    for line in ["K %d 0" % dom.void, "K 97 16777216", "K 4660 0", "P %s" % hx(b"Shift\0junk+a"), "Q %s" % hx(b"a{"),
                 "Q %s" % hx(b"{}"), "Q %s" % hx(b"{a"), "S 1 97 16777216"]:
        add("witness", line)
    return cases, dist


def oracle(dom, stream, line, obs):
    """The property evaluated on ONE implementation observation.  Returns None (holds / outside the domain)
    or (key, what)."""
    f = line.split()
    o = obs.split()
    if not o or o[0] != f[0]:
        return ("malformed-observation", "the harness printed %r for %r" % (obs, line))
    op = f[0]
    if op == "K":
        k, m = int(f[1]), int(f[2])
        if dom.representable(k, m):
            if o[2:] != ["1", str(k), str(m)]:
                nm = dom.names_of[k][0].decode("latin1")
                return ("roundtrip:key:%s" % nm, "KeyEvent(0x%x, 0x%x) is written %r and parses back as ok=%s keycode=%s modifier=%s"
                        % (k, m, bytes.fromhex(o[1] if o[1] != "-" else ""), o[2], o[3], o[4]))
    elif op == "S":
        evs = [(int(f[2 + 2 * i]), int(f[3 + 2 * i])) for i in range(int(f[1]))]
        if all(dom.seq_representable(*e) for e in evs):
            want = ["1", str(len(evs))] + [str(x) for e in evs for x in e]
            if o[2:] != want:
                return ("roundtrip:seq", "the sequence %s is written %r and parses back as ok=%s %s"
                        % (evs, bytes.fromhex(o[1] if o[1] != "-" else ""), o[2], " ".join(o[3:])))
    elif op == "N":
        text = bytes.fromhex(f[1]) if f[1] != "-" else b""
        if b"\0" not in text and int(o[1]) != dom.void and int(o[1]) not in dom.key_names.get(text, []):
            return ("lookup-accepts-unknown:key", "RimeGetKeycodeByName(%r) = 0x%x, but no entry of keys_by_keyval has that name "
                                                  "with that key value" % (text, int(o[1])))
    elif op == "M":
        text = bytes.fromhex(f[1]) if f[1] != "-" else b""
        if b"\0" not in text and int(o[1]) != 0 and (text not in dom.mod_names or int(o[1]) != 1 << dom.mod_names[text]):
            return ("lookup-accepts-unknown:modifier", "RimeGetModifierByName(%r) = 0x%x, but no modifier slot has that name "
                                                       "at that bit" % (text, int(o[1])))
    elif op == "P":
        text = bytes.fromhex(f[1]) if f[1] != "-" else b""
        if o[1] == "1" and b"\0" not in text:
            if len(text) == 0 or (len(text) >= 2 and not dom.key_text_known(text)):
                return ("parser-accepts-unknown:key", "KeyEvent::Parse accepted %r, which names an unknown key or modifier" % text)
            if len(text) >= 2:
                toks = text.split(b"+")
                want_m = 0
                for tk in toks[:-1]:
                    want_m |= 1 << dom.mod_names[tk]
                if int(o[3]) != want_m or int(o[2]) not in dom.key_names[toks[-1]]:
                    return ("parser-wrong-value:key", "KeyEvent::Parse(%r) gave keycode=%s modifier=%s, not what the names stand for"
                            % (text, o[2], o[3]))
    elif op == "Q":
        text = bytes.fromhex(f[1]) if f[1] != "-" else b""
        if o[1] == "1" and b"\0" not in text:
            pieces = dom.seq_pieces(text)
            if pieces is None or any(len(p) == 0 or (len(p) >= 2 and not dom.key_text_known(p)) for p in pieces):
                return ("parser-accepts-unknown:seq", "KeySequence::Parse accepted %r, which has an unbalanced brace or "
                                                      "names an unknown key or modifier" % text)
            if int(o[2]) != len(pieces):
                return ("parser-accepts-unknown:seq", "KeySequence::Parse read %s events from the %d pieces of %r" % (o[2], len(pieces), text))
    return None


def nontrivial(dom, stream, line, obs):
    f, o = line.split(), obs.split()
    if stream == "near_miss":
        return len(f[1]) >= 4
    if f[0] == "K":
        k, m = int(f[1]), int(f[2])
        return dom.representable(k, m) and (m != 0 or len(dom.names_of[k][0]) >= 2)
    if f[0] == "S":
        return int(f[1]) >= 2 and len(o) > 1 and "7b" in o[1]
    if f[0] in ("P", "Q"):
        text = bytes.fromhex(f[1]) if f[1] != "-" else b""
        return len(text) >= 2 and (o[1:2] == ["1"] or b"+" in text or b"{" in text)
    return False


def run(ctx):
    t = key_table.generate()
    ctx.coverage["trusted_base"] = [
        "Coq 8.16.1 kernel + vm_compute (table sweep and examples over the generated finite tables); no native_compute",
        "translator gen/key_table.py (lexical: modifier_name[], key_names[] with NULs, keys_by_keyval[], keys_by_name[] as "
        "(keyval, offset), kModifierMask from key_table.h, XK_VoidSymbol via the preprocessor; refuses -> translation_ok = false)",
        "hand model Key/KeyModel.v of RimeGet* (key_table.cc) and KeyEvent/KeySequence repr/Parse (key_event.cc); int as Z, "
        "char signed (x86-64), validated by the correspondence only",
        "extraction: ExtrOcamlBasic only; ocaml/common/glue*.ml + ocaml/c19/driver.ml are conversion glue",
        "harness/c19/c19.cc compiled with src/rime/key_event.cc + key_table.cc of the current tree (ASan+UBSan)",
    ]
    ctx.assumptions += [
        "key codes and modifier masks are C ints; text handed to the C lookups is read up to its first NUL (theorems are stated with cstr)",
        "correspondence is differential testing on the generated cases; it validates model = code, it is not the proof",
        "simulate_key_sequence (API) is not exercised here: it is KeySequence::Parse followed by ProcessKey (covered by C01/C16)",
    ]
    if t is None:
        ctx.coverage["translator"] = "REFUSED (see coq/Gen/KeyTable.v)"
    else:
        ctx.coverage["translator"] = {"modifier_slots": len(t["mods"]), "named_modifiers": sum(1 for m in t["mods"] if m is not None),
                                      "blob_bytes": len(t["blob"]), "keys_by_keyval": len(t["byval"]), "keys_by_name": len(t["byname"]),
                                      "kModifierMask": hex(t["mask"]), "XK_VoidSymbol": hex(t["void"])}
    res = vlib.proof_stage(ctx)
    # the forbidden-keyword scan looks at the whole Coq tree; only files in this property's dependency cone count here
    # (other properties' work in progress is reported by their own checks)
    hits = [h for h in (res.get("forbidden") or []) if h[0] in CONE]
    outside = [h for h in (res.get("forbidden") or []) if h[0] not in CONE]
    if outside and not hits and res.get("make_ok") and res.get("props") and res["props"]["ok"]:
        res["ok"] = True
        res["forbidden"] = []
        ctx.coverage["discharged"] = ctx.coverage["obligations"]
        ctx.notes.append("forbidden-keyword hits outside the dependency cone of Properties_C19.v ignored: %s"
                         % sorted({h[0] for h in outside}))
    proof_ok = res["ok"]
    ctx.coverage["mutation_drills"] = MUTATION_DRILLS
    if ctx.tier == "thorough" and proof_ok:
        # independent re-check of the compiled property file (and everything it depends on) by coqchk
        cmd = "timeout 1200 coqchk -silent -o -Q . RimeV RimeV.Properties_C19"
        rcc, outc = vlib.sh(cmd, cwd=vlib.COQ, timeout=1300)
        if rcc != 0:   # a concurrent rebuild of a shared .vo can disturb it: once more, under the build lock
            with vlib.Lock(os.path.join(vlib.COQ, ".make.lock")):
                rcc, outc = vlib.sh(cmd, cwd=vlib.COQ, timeout=1300)
        clean = rcc == 0 and "* Axioms: <none>" in outc
        ctx.coverage["coqchk"] = {"cmd": cmd, "rc": rcc, "axioms_none": "* Axioms: <none>" in outc, "summary": outc[-700:]}
        if not clean:
            proof_ok = False
            ctx.coverage["discharged"] = 0
            res["failed"].append(("coqchk Properties_C19", 0))
            res["log"] += "\n[coqchk]\n" + outc[-2000:]

    def proof_violation():
        ctx.violation("proof:Properties_C19", "a proof obligation of Properties_C19.v no longer checks "
                      "(C19_tables_wellformed is the sweep over the regenerated tables)",
                      {"failed": res["failed"], "forbidden": res.get("forbidden"), "translator_refused": t is None,
                       "log_tail": res["log"][-3000:] + ((res["props"] or {}).get("log", "")[-3000:])}, found_input=False)

    if t is None:
        proof_violation()
        return
    dom = Domain(t)

    # --- builds for correspondence + search (run even when the proof broke: that is where the failing input comes from)
    okm, logm = vlib.coq_make(["Gen/KeyTable.vo", "Base/Bytes.vo", "Key/KeyModel.vo"])
    rmodel = None
    if okm:
        rmodel = vlib.ocaml_build("c19", "Extract_C19.v", os.path.join(vlib.VERIF, "ocaml", "c19", "driver.ml"))
    else:
        ctx.violation("model-does-not-compile", "Key/KeyModel.v or the generated Gen/KeyTable.v does not compile",
                      {"log": logm[-4000:]}, found_input=False)
    src = os.path.join(vlib.REPO, "src", "rime")
    exe = vlib.cxx_build(os.path.join(vlib.WORK, "bin", "c19"),
                         [os.path.join(vlib.VERIF, "harness", "c19", "c19.cc"), os.path.join(src, "key_event.cc"),
                          os.path.join(src, "key_table.cc")],
                         # the generated build_config.h is bypassed: only RIME_ENABLE_LOGGING matters for these two files
                         flags="-DRIME_BUILD_CONFIG_H_ -DRIME_ENABLE_LOGGING", libs="-lglog")

    cases, dist = gen_cases(ctx, t, dom)
    feed = "\n".join(c[1] for c in cases) + "\n"
    rc, out, err = vlib.sh2([exe], stdin=feed, timeout=1500,
                            env={"ASAN_OPTIONS": "detect_leaks=0:abort_on_error=0", "UBSAN_OPTIONS": "print_stacktrace=1",
                                 "GLOG_minloglevel": "4"})
    ilines = out.split("\n")
    if ilines and ilines[-1] == "":
        ilines.pop()
    if rc != 0 or len(ilines) != len(cases):
        culprit = cases[len(ilines)][1] if len(ilines) < len(cases) else None
        ctx.violation("harness-abort", "the real parser/printer ended abnormally (sanitizer report or crash) rc=%d" % rc,
                      {"input_case": culprit, "cmd": "echo '%s' | %s" % (culprit, exe), "stderr": err[-6000:]}, found_input=True)
    mlines = []
    if rmodel:
        rc2, mout, merr = vlib.sh2([rmodel], stdin=feed, timeout=1500)
        mlines = mout.split("\n")
        if mlines and mlines[-1] == "":
            mlines.pop()
        if rc2 != 0 or len(mlines) != len(cases):
            ctx.violation("model-runner-abort", "the extracted model ended abnormally rc=%d" % rc2, {"stderr": merr[-3000:]}, found_input=False)

    # --- oracle on the implementation, and model/implementation diff
    bad, mism, per_stream = {}, [], {}
    nontriv = set()
    indomain = 0
    for idx, (stream, line, ind) in enumerate(cases):
        if idx >= len(ilines):
            break
        st = per_stream.setdefault(stream, {"cases": 0, "in_domain": 0, "oracle_fail": 0, "model_diff": 0})
        st["cases"] += 1
        if ind:
            st["in_domain"] += 1
            indomain += 1
        obs = ilines[idx]
        if line[0] in "PQ" and obs[2:3] == "1":
            st["accepted_texts"] = st.get("accepted_texts", 0) + 1
        v = oracle(dom, stream, line, obs)
        if v:
            st["oracle_fail"] += 1
            bad.setdefault(v[0], []).append((line, obs, v[1]))
        if idx < len(mlines) and mlines[idx] != obs:
            st["model_diff"] += 1
            mism.append((stream, line, obs, mlines[idx]))
        if nontrivial(dom, stream, line, obs):
            nontriv.add(line)
    ctx.coverage.update({
        "evaluations": len(cases), "in_domain_roundtrips": indomain, "distinct_nontrivial": len(nontriv),
        "rule": "one PRNG (seed %d): table functions entry by entry; every key code of the tables x {0, all named bits, each single "
                "named bit, random named masks} (in domain) and x masks with unnamed bits / key codes without a name (outside: model "
                "agreement only); random sequences of representable events (lengths 0..25) and sequences with unrepresentable events "
                "(outside); KeyEvent::Parse and KeySequence::Parse on every string of length <= %d over {a,A,+,{,},0,space,S,h,i,f,t} "
                "and on random texts assembled from modifier names, key names, junk, NUL and high bytes; a near-miss stream from the translated "
                "tables: EVERY key name and EVERY modifier name with one character appended (~ x 0), a long suffix, the last character "
                "dropped, a blank before/after, one character changed, one letter case-flipped, each through RimeGetKeycodeByName, "
                "RimeGetModifierByName, KeyEvent::Parse (alone and behind a `Mod+` prefix) and KeySequence::Parse (inside braces).  "
                "Non-trivial = any near-miss text of >= 2 bytes; key event in "
                "the domain with a non-zero mask or a name of >= 2 characters; sequence of >= 2 events whose text has a brace group; "
                "parser text of >= 2 bytes that was accepted or contains '+' or '{'." % (ctx.seed, 4 if ctx.tier == "thorough" else 3),
        "distribution": dist, "per_stream": per_stream,
        "samples": [{"case": cases[i][1], "impl": ilines[i]} for i in range(0, min(len(cases), len(ilines)), max(1, len(cases) // 12))][:14],
        "exhaustive": False, "correspondence_mismatches": len(mism), "oracle_failures_on_impl": sum(len(v) for v in bad.values()),
        "observations": ["text with an embedded NUL is cut at the NUL by the C lookups: KeyEvent::Parse(\"Shift\\0junk+a\") succeeds as "
                         "Shift+a (model and code agree; outside the property's domain of NUL-free text)"],
    })
    classes = sorted(bad.items())
    for key, items in classes[:8]:
        line, obs, what = items[0]
        ctx.violation(key, what, {"case": line, "observation": obs, "failures_in_class": len(items),
                                  "more": [i[0] for i in items[1:6]],
                                  "failing_classes_total": len(classes), "other_classes": [k for k, _ in classes[8:40]],
                                  "cmd": "echo '%s' | %s   # (K k m: repr then Parse; S: sequence; P/Q: Parse of hex text)" % (line, exe)},
                      found_input=True)
    if not proof_ok and not bad:
        proof_violation()
    if mism and not bad:
        stream, line, iobs, mobs = mism[0]
        ctx.violation("correspondence:c19:" + stream, "model and implementation disagree",
                      {"case": line, "impl": iobs, "model": mobs, "mismatches": len(mism),
                       "by_stream": {s: v["model_diff"] for s, v in per_stream.items() if v["model_diff"]}}, found_input=False)


MANIFEST = {
    "category": "proof",
    "technique": "Coq theorems over key tables regenerated from key_table.cc (translator) + extracted-model/real-code correspondence "
                 "on generated key events, sequences and parser texts; property oracle on the real code",
    "text": "Properties_C19.v proves over the tables regenerated from the current src/rime/key_table.cc: (1) the table sweep "
            "(offsets, terminators, name alphabet, name->code->name consistency of all 2x1306 entries and 32 modifier slots); "
            "(2) for ALL combinations of named modifier bits (structural induction over the slots, no enumeration) Parse reads "
            "back what repr writes; (3) every named key other than VoidSymbol under every named mask round-trips through "
            "KeyEvent::repr/Parse; (4) key sequences of any length of such events (and of unmodified printable characters) "
            "round-trip through KeySequence::repr/Parse; (5) a successful Parse only ever names known modifiers and keys, so "
            "text naming an unknown one fails; the Gallina parsers are total. The hand model of key_event.cc/key_table.cc is "
            "diffed against the real code (ASan+UBSan) on the same seeded cases, and the round-trip/soundness oracle is evaluated "
            "directly on the real code.",
    "note": "No axioms (all Print Assumptions: Closed under the global context). Trusted: Coq kernel + vm_compute; gen/key_table.py "
            "(lexical extraction, refuses on unexpected shape); the hand model of the four RimeGet* functions and of "
            "KeyEvent/KeySequence repr/Parse (validated by the correspondence only, not proved against the C++); char is signed "
            "(x86-64); ExtrOcamlBasic extraction and OCaml/C++ glue. Crash-freedom of the C++ parser on arbitrary text is by the "
            "sanitizer run on the generated texts (support), the theorem side is totality of the model. Text with embedded NUL is "
            "outside the domain (C lookups cut at NUL). simulate_key_sequence through the API is not exercised.",
}
