"""C11 - a kill at any instant leaves the user dictionary openable, whole commits intact.

proof:  Properties_C11.v - the LevelDb wrapper as a state machine, the Memory /
        UserDictionary protocol above it, a crash between any two calls (and,
        under LevelDB's contract as a hypothesis, inside any call): the store
        found afterwards is a prefix of whole units (commits / single writes).
tie:    hook log of the real code ($VERIF_DBLOG, commit b552a60 in /repo):
        (1) protocol - the LevelDb calls the real code issues for generated typing
            histories equal the model's ops_of the logged event history;
        (2) recovery - the run is repeated with a kill at every call boundary
            (VERIF_CRASH_AT), the dictionary reopened in a fresh process through
            UserDictionary::Load (built-in recovery path) and dumped; the dump must
            equal the model's reopen(recover) and lie in the theorem's set;
        thorough: every file-system mutation on the user db directories is a kill
            point (LD_PRELOAD interposer, also torn writes) - validates the LevelDB
            contract hypothesis on the installed LevelDB.
search: the kill sweep itself, judged by an implementation-only oracle: the
        reopened state must be one of the states the *real code* leaves after a
        clean shutdown at a script-command boundary not older than the latest
        commit (R-states) - a state outside is the failing input (script + kill index).
"""
import json
import os
import random
import shutil
import time
from concurrent.futures import ThreadPoolExecutor

import vlib
from checks import udbl

LEVEL = "proof"

MUTATION_DRILLS = [
    {"mutation": "LevelDb::MetaUpdate writes directly (`db_->Update(kMetaCharacter + key, value, false)`): the /tick update leaves the batch",
     "ran": "scratch worktree of /repo: VERIF_REPO=/var/tmp/wt-c11 VERIF_CACHE=/var/tmp/rime-verif-c11 bin/check C11 quick",
     "test_suite_with_mutation": "passes (ctest, guard off)",
     "fired": "VIOLATION property=C11 with a failing kill point (found_failing_input=true): crash-state-outside-commit-prefixes:<schema>:op on all "
              "three schemas, e.g. vscript, kill after call 6: reopened store has /tick = 1 and no entry (93 such kill points); protocol:<schema> too"},
    {"mutation": "Memory::OnCommit ends with FinishSession(): the batch is committed inside OnCommit",
     "ran": "same (in a copy of /verif)", "test_suite_with_mutation": "passes (ctest, guard off)",
     "fired": "VIOLATION property=C11 ... no-failing-input-found: protocol:<schema> (an extra `commit` call right after the commit's writes) and "
              "recovery-model:<schema>:op (reopened state is a legal commit prefix of the mutated code but not the model's: the commit is durable "
              "before the following key, so BackSpace can no longer forget it) - atomicity itself is not broken, hence no failing kill point"},
    {"mutation": "LevelDb::Update passes write_batch = false (`db_->Update(key, value, false)`): every update bypasses the batch",
     "ran": "same", "test_suite_with_mutation": "passes (ctest, guard off)",
     "fired": "VIOLATION property=C11 with a failing kill point (found_failing_input=true): crash-state-outside-commit-prefixes on all three schemas "
              "(tick present without the entry / first entry of a two-entry commit without the second); protocol:<schema> fires as well "
              "(a discarded commit stays in the store, so later counts differ from the model)"},
    {"mutation": "(independently seeded) StartSession() moved from the top of Memory::OnCommit into CommitEntry::Save: a commit that memorises k > 1 "
                 "phrases separately spans k transactions and the first k-1 are flushed during the commit",
     "ran": "scratch worktree + copy of /verif: VERIF_REPO=/var/tmp/wt-c11 VERIF_CACHE=/var/tmp/rime-verif-c11 bin/check C11 quick",
     "test_suite_with_mutation": "passes (ctest, guard off)",
     "fired": "first attempt: check-crashed (KeyError in judge: the real code issued more calls than the model) - repaired: outputs that do not have "
              "the model's shape are reported, never raised. Now VIOLATION property=C11 with a failing kill point (found_failing_input=true) on all "
              "three schemas, e.g. vtable `K 1 bbc/abc` + `F 1`, kill after call 42: `bb`/`c` entries of the commit durable (tick 7), `abc` entry "
              "missing; protocol:<schema> as well. The generator now makes 2- and 3-phrase commits (list punctuation between phrases) on every schema "
              "(coverage.protocol.commits_with_several_memorised_phrases)"},
]


def _hist_plan(tier):
    if tier == "quick":
        return dict(n=27, steps=6, sweep_budget_s=75, sys_histories=0)
    return dict(n=300, steps=8, sweep_budget_s=540, sys_histories=150, sys_budget_s=480)


def _canon_names(dbs):
    return sorted(dbs)


class History:
    pass


def _view(recs):
    """entries and the tick of a dumped dictionary"""
    return None if recs is None else {k: v for k, v in recs.items() if not k.startswith("01") or k == udbl.TICK_KEY}


def _full_run(exe, tpl, root, idx, script):
    ud = udbl.fresh_user_dir(tpl, os.path.join(root, "h%d" % idx))
    log = os.path.join(root, "h%d.log" % idx)
    rc, out, err = udbl.run_script(exe, tpl, ud, script, log_path=log)
    order, dbs = udbl.parse_log(log)
    return rc, out, err, order, dbs, ud


def run(ctx):
    plan = _hist_plan(ctx.tier)
    ctx.coverage["trusted_base"] = [
        "Coq 8.16.1 kernel (+ vm_compute for the concrete examples); no native_compute",
        "the model files coq/UdbL/Txn.v, Learn.v as a faithful port of level_db.cc / user_dictionary.cc / memory.cc / the Memorize functions",
        "the guarded hooks of /repo commit b552a60 (log lines and the VERIF_CRASH_AT kill) and harness/udbl/udbl.cc, killpoint.c",
        "extraction: ExtrOcamlBasic only; ocaml/common/glue*.ml + ocaml/c11/driver.ml are conversion glue",
        "canonicalisation in checks/udbl.py (entry value -> (commits, tick); the decayed weight d= is dropped; metadata strings other than /tick -> *)",
    ]
    ctx.assumptions += [
        "kill_inside_atomic (hypothesis of C11_txn_atomic): LevelDB's Put/Delete/Write(batch) are atomic against a process kill and the directory opens or is repaired afterwards - validated by the syscall-level kill sweep (thorough), not proved",
        "a killed process leaves every completed write() in the page cache (process kill, not power loss)",
        "LevelDb::Open succeeds in the model; the encoder of the table translator (enable_encoder) is off in the explored schemas and not modelled",
        "commit counts stay within C int range; the double d= field is not modelled",
        "the correspondence is differential testing on the generated histories; it validates the model, it is not the proof",
    ]
    res = vlib.proof_stage(ctx)
    proof_ok = res["ok"]
    if not proof_ok:
        ctx.violation("proof:Properties_C11", "a proof obligation of Properties_C11.v no longer checks",
                      {"failed": res["failed"], "forbidden": res.get("forbidden"),
                       "log_tail": res["log"][-3000:] + ((res["props"] or {}).get("log", "")[-3000:])}, found_input=False)

    okm, logm = vlib.coq_make(["UdbL/Learn.vo", "Base/Bytes.vo"])
    if not okm:
        ctx.violation("model-does-not-compile", "coq/UdbL/Learn.v does not compile", {"log": logm[-4000:]}, found_input=False)
        return
    model = vlib.ocaml_build("c11", "Extract_C11.v", os.path.join(vlib.VERIF, "ocaml", "c11", "driver.ml"))
    exe_asan = udbl.build_harness("asan")
    exe = udbl.build_harness("plain")
    root = ctx.scratch("c11")
    # private copy: the cached template is replaced when /repo changes during the run
    tpl = vlib.copy_workspace(udbl.workspace("plain"), os.path.join(root, "tpl"))
    rnd = random.Random(ctx.seed)
    t_start = time.time()

    # ------------------------------------------------------------------ histories
    hists = []
    gen_stats = {}
    for i in range(plan["n"]):
        schema = ["vscript", "vtable", "luna_pinyin"][i % 3]
        script, stats = udbl.gen_history(rnd, schema, plan["steps"] + rnd.randrange(3), two_sessions=(i % 5 == 4))
        for k, v in stats.items():
            gen_stats[schema + ":" + k] = gen_stats.get(schema + ":" + k, 0) + v
        h = History()
        h.idx, h.schema, h.script = i, schema, script
        hists.append(h)

    # ------------------------------------------------------------------ stream 1: protocol
    def full(h):
        return _full_run(exe_asan, tpl, root, h.idx, h.script)
    with ThreadPoolExecutor(8) as ex:
        fulls = list(ex.map(full, hists))
    feed = []
    for h, (rc, out, err, order, dbs, ud) in zip(hists, fulls):
        h.rc, h.out, h.err, h.order, h.dbs = rc, out, err, order, dbs
        h.names = _canon_names(dbs)
        shutil.rmtree(ud, ignore_errors=True)
        for n in h.names:
            feed.append(dbs[n].model_line())
    rc2, mout, merr = vlib.sh2([model], stdin="\n".join(feed) + "\n", timeout=900)
    mres = udbl.parse_model_output(mout)
    if rc2 != 0 or len(mres) != len(feed):
        ctx.violation("model-runner", "the extracted model did not answer every history",
                      {"rc": rc2, "stderr": merr[-3000:], "answered": len(mres), "asked": len(feed)}, found_input=False)
        return
    k = 0
    proto_mism, unmodelled, aborted = [], [], []
    n_ops = n_events = n_commit_events = n_multi = 0
    for h in hists:
        h.model = {}
        for n in h.names:
            h.model[n] = mres[k]
            k += 1
            d = h.dbs[n]
            for key in ("ops", "S", "P"):
                h.model[n].setdefault(key, {} if key != "ops" else [])
            n_ops += len(d.ops)
            n_events += len(d.events)
            n_commit_events += sum(1 for e in d.events if e[0] == "C")
            n_multi += sum(1 for x in d.event_saves if x >= 2)
            if d.unmodelled:
                unmodelled.append((h, n, d.unmodelled[0]))
            if d.ops != h.model[n]["ops"]:
                proto_mism.append((h, n))
            if h.model[n]["chk"] is not True:
                ctx.violation("theorem-instance", "recover(prefix) differs from abs_units(prefix of units) on an extracted-model run "
                              "(contradicts C11_txn_atomic: model/extraction problem)", {"script": h.script, "db": n}, found_input=False)
        if h.rc != 0 or "END" not in h.out:
            aborted.append(h)
    for h in aborted[:3]:
        ctx.violation("harness-abort:" + h.schema, "the typing history ended abnormally under ASan/UBSan (rc=%d)" % h.rc,
                      {"script": h.script, "stderr": h.err[-5000:], "cmd": "%s run <shared> <user> <script>" % exe_asan}, found_input=True)
    for h, n, line in unmodelled[:3]:
        ctx.violation("unmodelled-event:" + h.schema, "the hook logged a protocol event the model has no step for",
                      {"script": h.script, "db": n, "log_line": line}, found_input=False)

    # ------------------------------------------------------------------ R-states: clean shutdown at every command boundary
    def r_state(h, kk):
        """implementation-only reference: the reopened dictionaries after running the
        first kk commands and shutting down cleanly"""
        d = udbl.fresh_user_dir(tpl, os.path.join(root, "r%d_%d" % (h.idx, kk)))
        rc, o, e = udbl.run_script(exe, tpl, d, h.script[:kk])
        dump, derr = udbl.run_dump(exe, tpl, d, h.names)
        shutil.rmtree(d, ignore_errors=True)
        if os.path.exists(d + ".script"):
            os.remove(d + ".script")
        return {n: (dump or {}).get(n, {}).get("recs") for n in h.names} if rc == 0 and not derr else None

    # ------------------------------------------------------------------ stream 2: kill at every call boundary
    stats = dict(kill_runs=0, in_txn_kills=0, states_checked=0, recovery_used=0, metadata_incomplete_after_kill=0,
                 histories_swept=0, r_states=0)
    outside, model_diff, not_openable, run_anomaly, no_prefix = [], [], [], [], []
    nontrivial = set()

    def judge(h, kind, p, rc, dump, derr, klog_order, expect_rc, R):
        """compare one killed run with the model and with the R-states; output of the
        implementation that does not have the expected shape is a difference to report"""
        try:
            judge1(h, kind, p, rc, dump, derr, klog_order, expect_rc, R)
        except Exception:
            import traceback
            run_anomaly.append((h, kind, p, "the run's output could not be interpreted: " + traceback.format_exc()[-1500:]))

    def judge1(h, kind, p, rc, dump, derr, klog_order, expect_rc, R):
        stats["kill_runs"] += 1
        if kind != "op" and rc == 0 and expect_rc == 137:
            # LevelDB removes obsolete files from a background thread: the number of
            # file-system calls of a run varies by one or two, so the last kill indices of
            # the counting run may not be reached - then this is simply a complete run
            stats["sys_kill_not_reached"] = stats.get("sys_kill_not_reached", 0) + 1
            expect_rc = 0
        if rc != expect_rc or dump is None:
            run_anomaly.append((h, kind, p, "rc=%s expected %s %s" % (rc, expect_rc, derr)))
            return
        if list(klog_order) != list(h.order[:len(klog_order)]):
            run_anomaly.append((h, kind, p, "the killed run's call log is not a prefix of the uninterrupted run's"))
            return
        m = klog_order.last_cmd
        q = klog_order.last_commit_cmd
        active = klog_order[-1] if len(klog_order) else None
        q_all = q
        for n in h.names:
            q = q_all
            info = klog_order.per_db.get(n)
            if kind != "cmd" and q == m and info and info["last"] == m and info["prev_unflushed"]:
                # the kill falls inside the command whose commit event is the latest one, and the transaction of the commit
                # before it had not been flushed when this commit began (no LevelDb `commit` call on this dictionary in
                # between: the two commits were not separated by a key that reaches the dictionary).  The commit in
                # progress is not yet made, so the final commit made is the earlier one and it may still be missing.  At a
                # command boundary (kind "cmd") the command has returned and its commit counts.
                q = info["prev"]
                stats["kills_inside_back_to_back_commit"] = stats.get("kills_inside_back_to_back_commit", 0) + 1
            got = dump.get(n, {})
            load = got.get("load", "")
            if not load.startswith("ok") or got.get("status") != "open":
                not_openable.append((h, kind, p, n, load + " / " + str(got.get("status")) + " " + str(derr)))
                continue
            if "recovery" in load:
                stats["recovery_used"] += 1
            recs = got["recs"]
            stats["states_checked"] += 1
            if "012f64625f74797065" not in recs:      # "/db_type" (observation outside the property, see DESIGN.md §8)
                stats["metadata_incomplete_after_kill"] += 1
            pdb = list(klog_order).count(n)
            mod = h.model[n]
            if pdb in mod["P"] and (pdb == 0 or pdb - 1 in mod["P"]):
                hi = mod["P"][pdb][0]
                lo = mod["P"][pdb - 1][0] if (kind != "op" and n == active and pdb > 0) else hi
                in_set = any(mod["S"].get(j) == recs for j in range(lo, hi + 1))
            else:
                # the real code issued more calls than the model has for this history (already
                # reported as a protocol difference): only the implementation-only oracle applies
                stats["kills_beyond_model_calls"] = stats.get("kills_beyond_model_calls", 0) + 1
                lo = hi = None
                in_set = None
            # implementation-only oracle
            ks = range(q if q >= 0 else max(m, 0), min(m + 1, len(h.script)) + 1)
            # (entries, counts and the tick are what the property speaks about; the other
            # metadata records are compared with the model only)
            in_R = any(R[kk] is not None and _view(R[kk][n]) == _view(recs) for kk in ks)
            if not in_R:
                outside.append((h, kind, p, n, _view(recs), [_view(R[kk][n]) for kk in ks if R[kk] is not None], load))
            elif in_set is False:
                # the real code's own clean-shutdown states allow it, the model's window does not.  When NO prefix of the
                # history's commits produces it in the model either (entries and counts as the proved semantics of one
                # commit / one revocation gives them), the dictionary holds something no prefix of the commits produced:
                # that is the property's first clause failing on this history and kill point, not a matter of timing
                if not any(_view(v) == _view(recs) for v in mod["S"].values()):
                    no_prefix.append((h, kind, p, n, _view(recs), _view(mod["S"].get(hi))))
                model_diff.append((h, kind, p, n, recs, mod["S"].get(lo), mod["S"].get(hi)))

    def sweep_ops(h):
        N = len(h.order)

        def one(p):
            d = udbl.fresh_user_dir(tpl, os.path.join(root, "k%d_%d" % (h.idx, p)))
            lg = os.path.join(root, "k%d_%d.log" % (h.idx, p))
            rc, out, err = udbl.run_script(exe, tpl, d, h.script, log_path=lg, crash_at=p)
            dump, derr = udbl.run_dump(exe, tpl, d, h.names)
            o2, _ = udbl.parse_log(lg)
            shutil.rmtree(d, ignore_errors=True)
            for f in (lg, d + ".script"):
                if os.path.exists(f):
                    os.remove(f)
            return p, rc, dump, derr, o2
        def one_cmd(kk):
            """the process dies at a command boundary (script line `!`): also the boundaries at which the code under test
            issues no LevelDb call at all, e.g. behind a commit that memorises nothing"""
            d = udbl.fresh_user_dir(tpl, os.path.join(root, "c%d_%d" % (h.idx, kk)))
            lg = os.path.join(root, "c%d_%d.log" % (h.idx, kk))
            rc, out, err = udbl.run_script(exe, tpl, d, h.script[:kk] + ["!"], log_path=lg)
            dump, derr = udbl.run_dump(exe, tpl, d, h.names)
            o2, _ = udbl.parse_log(lg)
            shutil.rmtree(d, ignore_errors=True)
            for f in (lg, d + ".script"):
                if os.path.exists(f):
                    os.remove(f)
            return kk, rc, dump, derr, o2
        with ThreadPoolExecutor(vlib.NPROC) as ex:
            fr = [ex.submit(r_state, h, kk) for kk in range(len(h.script) + 1)]
            results = list(ex.map(one, range(N + 1)))
            cmd_results = list(ex.map(one_cmd, range(2, len(h.script) + 1)))
            R = [f.result() for f in fr]
        stats["r_states"] += len(R)
        for kk, rc, dump, derr, o2 in cmd_results:
            judge(h, "cmd", kk, rc, dump, derr, o2, 137, R)
            stats["cmd_boundary_kills"] = stats.get("cmd_boundary_kills", 0) + 1
            nontrivial.add((h.idx, "cmd", kk))
        for p, rc, dump, derr, o2 in results:
            judge(h, "op", p, rc, dump, derr, o2, 137 if p < N else 0, R)
            # was a transaction open at this boundary?  (flags logged by the hook at the next call)
            if p < N:
                n = h.order[p]
                pdb = list(h.order[:p]).count(n)
                if pdb < len(h.dbs[n].flags) and h.dbs[n].flags[pdb][1] == "1":
                    stats["in_txn_kills"] += 1
                    nontrivial.add((h.idx, p))
        stats["histories_swept"] += 1
        return R

    t_sweep = time.time()
    swept = []
    for h in hists:
        if time.time() - t_sweep > plan["sweep_budget_s"]:
            break
        if h in aborted:
            continue
        h.R = sweep_ops(h)
        swept.append(h)

    # ------------------------------------------------------------------ thorough: every file-system mutation is a kill point
    sys_stats = dict(histories=0, kill_points=0, torn_kill_points=0, histogram={})
    if plan["sys_histories"]:
        kp = udbl.build_killpoint()
        t_sys = time.time()
        for h in swept[:plan["sys_histories"]]:
            if time.time() - t_sys > plan["sys_budget_s"]:
                break
            d0 = udbl.fresh_user_dir(tpl, os.path.join(root, "s%d" % h.idx))
            cnt = os.path.join(root, "s%d.cnt" % h.idx)
            rc, out, err = udbl.run_script(exe, tpl, d0, h.script, preload=kp, extra_env={"VERIF_KILL_COUNT": cnt})
            shutil.rmtree(d0, ignore_errors=True)
            try:
                f = open(cnt).read().split()
                K = int(f[0])
                for kv in f[1:]:
                    a, b = kv.split("=")
                    sys_stats["histogram"][a] = sys_stats["histogram"].get(a, 0) + int(b)
            except (OSError, ValueError, IndexError):
                run_anomaly.append((h, "sys", -1, "no kill-point count from the interposer (rc=%s)" % rc))
                continue
            torn = (h.idx % 2 == 1)

            def one(p, h=h, torn=torn):
                d = udbl.fresh_user_dir(tpl, os.path.join(root, "y%d_%d" % (h.idx, p)))
                lg = os.path.join(root, "y%d_%d.log" % (h.idx, p))
                env = {"VERIF_KILL_AT": str(p)}
                if torn:
                    env["VERIF_KILL_TORN"] = "1"
                rc, out, err = udbl.run_script(exe, tpl, d, h.script, log_path=lg, preload=kp, extra_env=env)
                dump, derr = udbl.run_dump(exe, tpl, d, h.names)
                o2, _ = udbl.parse_log(lg)
                shutil.rmtree(d, ignore_errors=True)
                for f in (lg, d + ".script"):
                    if os.path.exists(f):
                        os.remove(f)
                return p, rc, dump, derr, o2
            with ThreadPoolExecutor(vlib.NPROC) as ex:
                results = list(ex.map(one, range(K)))
            for p, rc, dump, derr, o2 in results:
                judge(h, "sys-torn" if torn else "sys", p, rc, dump, derr, o2, 137, h.R)
                nontrivial.add((h.idx, "sys", p))
            sys_stats["histories"] += 1
            sys_stats["kill_points"] += K
            if torn:
                sys_stats["torn_kill_points"] += K

    # ------------------------------------------------------------------ verdicts
    def replay_of(h, kind, p, extra):
        how = {"cmd": "%s run <template>/shared <fresh user dir> <the first %d script lines followed by the line `!` (= _exit(137))>" % (exe, p),
               "op": "VERIF_DBLOG=<log> VERIF_CRASH_AT=%d %s run <template>/shared <fresh user dir> <script>" % (p, exe),
               "sys": "LD_PRELOAD=%s VERIF_KILL_AT=%d %s run ..." % (os.path.join(vlib.WORK, "bin", "udbl-killpoint.so"), p, exe),
               "sys-torn": "LD_PRELOAD=... VERIF_KILL_AT=%d VERIF_KILL_TORN=1 %s run ..." % (p, exe)}[kind]
        r = {"schema": h.schema, "script": h.script, "kill_kind": kind, "kill_index": p,
             "how": how + " ; then `%s dump <template>/shared <user dir> %s`" % (exe, " ".join(h.names)),
             "workspace": "checks/udbl.py: workspace('plain') (synthetic schemas vscript/vtable + data/minimal)"}
        r.update(extra)
        return r

    seen = set()
    for h, kind, p, n, recs, allowed, load in outside:
        cls = "crash-state-outside-commit-prefixes:%s:%s" % (h.schema, kind)
        if cls in seen:
            continue
        seen.add(cls)
        ctx.violation(cls, "after a kill the reopened user dictionary '%s' is none of the states the code leaves after a clean "
                      "shutdown at a command boundary since the latest commit (a commit is partly present, or durable data was lost)" % n,
                      replay_of(h, kind, p, {"db": n, "reopened": recs, "allowed_states": allowed, "load": load,
                                             "count_outside": sum(1 for o in outside if o[0].schema == h.schema and o[1] == kind)}),
                      found_input=True)
    for h, kind, p, n, why in not_openable[:3]:
        ctx.violation("not-openable:%s:%s" % (h.schema, kind), "after a kill the user dictionary '%s' does not open, even after the built-in recovery" % n,
                      replay_of(h, kind, p, {"db": n, "load": why}), found_input=True)
    for h, kind, p, n, recs, want in no_prefix:
        cls = "state-no-commit-prefix-produces:%s:%s" % (h.schema, kind)
        if cls in seen:
            continue
        seen.add(cls)
        ctx.violation(cls, "the reopened user dictionary '%s' holds entries or counts that no prefix of the history's commits produces "
                      "(per-commit semantics of the model, C11_txn_atomic): e.g. a revoked commit written out, or a count bumped twice" % n,
                      replay_of(h, kind, p, {"db": n, "reopened": recs, "model_state_at_this_point": want,
                                             "count": sum(1 for o in no_prefix if o[0].schema == h.schema and o[1] == kind)}))
    found_any = bool(outside or not_openable or no_prefix)
    for h, n in proto_mism[:3]:
        a, b = h.dbs[n].ops, h.model[n]["ops"]
        i = next((i for i, (x, y) in enumerate(zip(a, b)) if x != y), min(len(a), len(b)))
        ctx.violation("protocol:%s" % h.schema, "the LevelDb calls of the real code differ from the model's ops_of for the same event history "
                      "(a write outside the batch, or the batch committed at another moment)",
                      {"schema": h.schema, "script": h.script, "db": n, "first_difference_at_call": i,
                       "real": a[max(0, i - 3):i + 4], "model": b[max(0, i - 3):i + 4], "mismatching_histories": len(proto_mism),
                       "searched": "kill sweep over %d histories found %s" % (len(swept), "a failing kill point (reported separately)" if found_any else "no crash state outside the allowed set")},
                      found_input=False)
    for h, kind, p, n, recs, slo, shi in model_diff[:3]:
        ctx.violation("recovery-model:%s:%s" % (h.schema, kind), "the reopened dictionary is an allowed state of the real code but not the one the model's recover predicts",
                      replay_of(h, kind, p, {"db": n, "reopened": recs, "model_lo": slo, "model_hi": shi, "count": len(model_diff)}), found_input=False)
    for h, kind, p, why in run_anomaly[:3]:
        ctx.violation("kill-run-anomaly:%s" % kind, "a killed run did not behave as a prefix of the uninterrupted run: " + why,
                      replay_of(h, kind, p, {}), found_input=False)

    sample_h = swept[0] if swept else (hists[0] if hists else None)
    ctx.coverage.update({
        "evaluations": len(hists) + stats["kill_runs"],
        "distinct_nontrivial": len(nontrivial),
        "rule": "histories: %d generated from one PRNG (seed) over vscript / vtable / luna_pinyin, %d..%d steps each, every 5th with two sessions "
                "on one dictionary; each swept history is re-run with a kill at EVERY LevelDb call boundary (and, thorough, at every "
                "file-system mutation on the db directory, every second history with torn writes) and reopened in a fresh process; "
                "non-trivial = distinct (history, kill point) with a transaction open at the kill (call-level) or any syscall-level kill point"
                % (len(hists), plan["steps"], plan["steps"] + 2),
        "samples": ([{"schema": sample_h.schema, "script": sample_h.script,
                      "calls": {n: sample_h.dbs[n].ops[:40] for n in sample_h.names if len(sample_h.dbs[n].ops) > 8},
                      "events": {n: [" ".join(e) for e in sample_h.dbs[n].events[:12]] for n in sample_h.names if len(sample_h.dbs[n].ops) > 8}}]
                    if sample_h else []),
        "generator_distribution": gen_stats,
        "protocol": {"histories": len(hists), "db_histories": len(feed), "calls_compared": n_ops, "events_fed_to_model": n_events,
                     "commit_events": n_commit_events, "commits_with_several_memorised_phrases": n_multi, "mismatching_db_histories": len(proto_mism), "asan_aborts": len(aborted)},
        "crash_sweep": dict(stats, outside_allowed_set=len(outside), differs_from_model=len(model_diff), no_commit_prefix=len(no_prefix), not_openable=len(not_openable),
                            anomalies=len(run_anomaly)),
        "syscall_sweep": sys_stats,
        "exhaustive": False,
        "mutation_drills": MUTATION_DRILLS,
    })


MANIFEST = {
    "category": "proof",
    "technique": "Coq model of the LevelDb wrapper + learning protocol with an atomic event semantics, refinement and crash theorems by induction "
                 "over histories; hook-log correspondence (calls and events) and a kill sweep over every call boundary / file-system mutation",
    "text": "Properties_C11.v proves for every event history and every crash point (between two LevelDb calls, and inside a call under the "
            "hypothesis that LevelDB's Put/Delete/Write(batch) are atomic) that the store a fresh process finds is the initial store with a prefix "
            "of whole units applied - each commit's writes, tick included, entirely or not at all (C11_txn_atomic via the refinement "
            "C11_impl_refines_atomic), that every write of a commit goes to the batch (C11_no_partial_commit), that a new commit first makes the "
            "pending one durable so at most the latest commit is missing (C11_at_most_last_missing, C11_one_unit_undecided), that durable data "
            "only grows with the crash position (C11_durable_monotone) and that the tick is stored by the same unit and bounds the entries' "
            "stamps (C11_tick_consistent). The model is tied to the current source on every run by comparing the hook log of the real code "
            "(calls and protocol events) with the extracted model and by re-running each history with a kill at every call boundary and "
            "reopening the dictionary in a fresh process, and with a kill at every script-command boundary (also the instants at which the code "
            "issues no LevelDb call); a reopened state must be a clean-shutdown state since the final commit made AND a state some prefix of "
            "the commits produces in the model; thorough kills at every file-system mutation (also torn writes).",
    "note": "No axioms (Print Assumptions: closed under the global context). Partial as to the runtime: LevelDB's atomicity and openability after a "
            "kill is a hypothesis (kill_inside_atomic) validated by the syscall-level sweep on the installed LevelDB 1.23; process kill, not power "
            "loss (completed writes stay in the page cache). Trusted: the port in coq/UdbL/Txn.v, Learn.v, the hooks of /repo commit b552a60, "
            "the harness and canonicalisation. The double-valued d= field and int overflow of counts are not modelled; the table translator's "
            "encoder is off in the explored schemas.",
}
