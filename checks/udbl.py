"""Shared machinery of the C10/C11 checks: synthetic schemas, workspace, harness
runs, parsing of the hook log ($VERIF_DBLOG) into per-db event histories and
operation logs, history generators."""
import os
import random
import re
import shutil

import vlib

HARNESS = os.path.join(vlib.VERIF, "harness", "udbl")

# ---------------------------------------------------------------------------
# synthetic schemas (small generated dictionaries, enable_user_dict true)
# ---------------------------------------------------------------------------

_PUNCT = """
punctuator:
  half_shape:
    ',' : { commit: '，' }
    '.' : { commit: '。' }
    '/' : [ '、', '／' ]
  full_shape:
    ',' : { commit: '，' }
    '.' : { commit: '。' }
    '/' : [ '、', '／' ]
"""

VSCRIPT_SCHEMA = """# synthetic script-translator schema of the C10/C11 checks
schema:
  schema_id: vscript
  name: vscript
  version: "1"
engine:
  processors: [ speller, punctuator, selector, navigator, express_editor ]
  segmentors: [ abc_segmentor, punct_segmentor, fallback_segmentor ]
  translators: [ punct_translator, script_translator ]
speller:
  alphabet: abcdefghijklmnopqrstuvwxyz
  delimiter: " '"
translator:
  dictionary: vscript
  enable_user_dict: true
""" + _PUNCT

VTABLE_SCHEMA = """# synthetic table-translator schema of the C10/C11 checks
schema:
  schema_id: vtable
  name: vtable
  version: "1"
engine:
  processors: [ speller, punctuator, selector, navigator, express_editor ]
  segmentors: [ abc_segmentor, punct_segmentor, fallback_segmentor ]
  translators: [ punct_translator, table_translator ]
speller:
  alphabet: abcdefghijklmnopqrstuvwxyz
  delimiter: " '"
translator:
  dictionary: vtable
  enable_user_dict: true
  enable_sentence: true
  enable_encoder: false
  enable_completion: true
""" + _PUNCT

SYLLABLES = ["ba", "bo", "da", "du", "ga", "gu", "ma", "mi"]
# distinct CJK characters, a few homophones per syllable
_CHARS = "巴把八爸波玻播大打達度都讀嘎尬古谷股馬嗎媽米迷密"


def vscript_dict():
    rnd = random.Random(7)
    lines = ["# generated", "---", "name: vscript", 'version: "1"', "sort: by_weight", "use_preset_vocabulary: false", "...", ""]
    pool = list(_CHARS)
    chars = {}
    k = 0
    for s in SYLLABLES:
        chars[s] = pool[k:k + 3]
        k += 3
    for s in SYLLABLES:
        for j, c in enumerate(chars[s]):
            lines.append("%s\t%s\t%d" % (c, s, 300 - 90 * j))
    # two-syllable phrases (some pairs have two homophonic phrases, some pairs none)
    pairs = [(a, b) for a in SYLLABLES for b in SYLLABLES]
    rnd.shuffle(pairs)
    for a, b in pairs[:24]:
        for j in range(1 + (rnd.random() < 0.4)):
            t = chars[a][(j + rnd.randrange(3)) % 3] + chars[b][rnd.randrange(3)]
            lines.append("%s\t%s %s\t%d" % (t, a, b, 50 - 20 * j))
    # a few three-syllable phrases
    for a, b in pairs[24:30]:
        c = rnd.choice(SYLLABLES)
        lines.append("%s\t%s %s %s\t%d" % (chars[a][0] + chars[b][1] + chars[c][2], a, b, c, 10))
    seen, out = set(), []
    for l in lines:
        if l in seen and "\t" in l:
            continue
        seen.add(l)
        out.append(l)
    return "\n".join(out) + "\n"


TABLE_CODES = ["aa", "ab", "ba", "bb", "abc", "abd", "c", "ca"]
_TCHARS = "日月金木水火土竹戈十大中一弓人心手口尸廿山女田卜"


def vtable_dict():
    lines = ["# generated", "---", "name: vtable", 'version: "1"', "sort: original", "use_preset_vocabulary: false",
             "columns:", "  - text", "  - code", "  - weight", "...", ""]
    k = 0
    for code in TABLE_CODES:
        for j in range(3):
            lines.append("%s\t%s\t%d" % (_TCHARS[k % len(_TCHARS)], code, 100 - 30 * j))
            k += 1
    lines.append("%s\t%s\t%d" % ("日月", "aaab", 5))
    return "\n".join(lines) + "\n"


DEFAULT_YAML_EXTRA = """
schema_list:
  - schema: luna_pinyin
  - schema: cangjie5
  - schema: vscript
  - schema: vtable
"""


def default_yaml():
    src = open(os.path.join(vlib.REPO, "data", "minimal", "default.yaml")).read()
    src = re.sub(r"schema_list:\n(  - schema: \w+\n)+", DEFAULT_YAML_EXTRA.lstrip("\n"), src, count=1)
    assert "vscript" in src
    return src


def workspace(flavour):
    """deployed template (shared/ + user/build) with the synthetic schemas."""
    extra = {
        "default.yaml": default_yaml(),
        "vscript.schema.yaml": VSCRIPT_SCHEMA, "vscript.dict.yaml": vscript_dict(),
        "vtable.schema.yaml": VTABLE_SCHEMA, "vtable.dict.yaml": vtable_dict(),
    }
    return vlib.stock_workspace(flavour, extra_shared=extra, name="udbl")


def fresh_user_dir(template, dest):
    """a private user dir: the deployed build/ is shared read-only through a symlink."""
    shutil.rmtree(dest, ignore_errors=True)
    os.makedirs(dest)
    os.symlink(os.path.join(template, "user", "build"), os.path.join(dest, "build"))
    for f in ("installation.yaml", "user.yaml"):
        p = os.path.join(template, "user", f)
        if os.path.exists(p):
            shutil.copy(p, os.path.join(dest, f))
    return dest


def clone_user_dir(src, dest):
    shutil.rmtree(dest, ignore_errors=True)
    shutil.copytree(src, dest, symlinks=True)
    return dest


def build_harness(flavour):
    b = vlib.librime_build(flavour)
    exe = os.path.join(vlib.WORK, "bin", "udbl-" + flavour)
    src = os.path.join(HARNESS, "udbl.cc")
    stamp = exe + ".stamp"
    key = "%s:%d:%d" % (b, os.stat(src).st_mtime_ns, os.stat(os.path.join(b, "lib", "librime.so")).st_mtime_ns)
    if os.path.exists(exe) and os.path.exists(stamp) and open(stamp).read() == key:
        return exe
    vlib.cxx_build(exe, [src], flags="-I%s/src" % b,
                   libs="-L%s/lib -lrime -lglog -Wl,-rpath,%s/lib" % (b, b), san=(flavour == "asan"))
    open(stamp, "w").write(key)
    return exe
