"""Shared machinery of the C10/C11 checks: synthetic schemas, workspace, harness
runs, parsing of the hook log ($VERIF_DBLOG) into per-db event histories and
operation logs, history generators."""
import os
import random
import re
import shutil

import vlib

HARNESS = os.path.join(vlib.VERIF, "harness", "udbl")

# ---------------------------------------------------------------------------
# synthetic schemas (small generated dictionaries, enable_user_dict true)
# ---------------------------------------------------------------------------

_PUNCT = """
punctuator:
  half_shape:
    ',' : { commit: '，' }
    '.' : { commit: '。' }
    '/' : [ '、', '／' ]
  full_shape:
    ',' : { commit: '，' }
    '.' : { commit: '。' }
    '/' : [ '、', '／' ]
"""

VSCRIPT_SCHEMA = """# synthetic script-translator schema of the C10/C11 checks
schema:
  schema_id: vscript
  name: vscript
  version: "1"
engine:
  processors: [ speller, punctuator, selector, navigator, express_editor ]
  segmentors: [ abc_segmentor, punct_segmentor, fallback_segmentor ]
  translators: [ punct_translator, script_translator ]
speller:
  alphabet: abcdefghijklmnopqrstuvwxyz
  delimiter: " '"
  algebra:
    - abbrev/^([a-z]).+$/$1/
    - abbrev/^([zcs]h).+$/$1/
translator:
  dictionary: vscript
  enable_user_dict: true
""" + _PUNCT

VTABLE_SCHEMA = """# synthetic table-translator schema of the C10/C11 checks
schema:
  schema_id: vtable
  name: vtable
  version: "1"
engine:
  processors: [ speller, punctuator, selector, navigator, express_editor ]
  segmentors: [ abc_segmentor, punct_segmentor, fallback_segmentor ]
  translators: [ punct_translator, table_translator ]
speller:
  alphabet: abcdefghijklmnopqrstuvwxyz
  delimiter: " '"
translator:
  dictionary: vtable
  enable_user_dict: true
  enable_sentence: true
  enable_encoder: false
  enable_completion: true
""" + _PUNCT

SYLLABLES = ["ba", "bo", "da", "du", "ga", "gu", "ma", "mi"]
# syllables with a two-letter initial: reachable by two abbreviation levels (sh, s / zh, z)
# and "ha": with it `sh` is also s + h, so the graph keeps both abbreviations of sha/shu
EXTRA_SYLLABLES = ["sha", "shu", "zhu", "ha"]
_EXTRA_CHARS = "沙殺數書朱主哈蛤"
# abbreviated inputs: one-letter and zh/ch/sh abbreviations followed by a consonant or the end
ABBR_INPUTS = {
    "vscript": ["shd", "sd", "shb", "zhg", "bd", "shsh", "mzh", "dsh", "gm"],
    "luna_pinyin": ["shj", "zhg", "nh", "zg", "shsh", "chd", "wm", "sj", "dsh"],
}
# distinct CJK characters, a few homophones per syllable
_CHARS = "巴把八爸波玻播大打達度都讀嘎尬古谷股馬嗎媽米迷密"


def vscript_dict():
    rnd = random.Random(7)
    lines = ["# generated", "---", "name: vscript", 'version: "1"', "sort: by_weight", "use_preset_vocabulary: false", "...", ""]
    pool = list(_CHARS)
    chars = {}
    k = 0
    for s in SYLLABLES:
        chars[s] = pool[k:k + 3]
        k += 3
    for s in SYLLABLES:
        for j, c in enumerate(chars[s]):
            lines.append("%s\t%s\t%d" % (c, s, 300 - 90 * j))
    for i, s in enumerate(EXTRA_SYLLABLES):
        for j in range(2):
            lines.append("%s\t%s\t%d" % (_EXTRA_CHARS[2 * i + j], s, 200 - 80 * j))
    # two-syllable phrases (some pairs have two homophonic phrases, some pairs none)
    pairs = [(a, b) for a in SYLLABLES for b in SYLLABLES]
    rnd.shuffle(pairs)
    for a, b in pairs[:24]:
        for j in range(1 + (rnd.random() < 0.4)):
            t = chars[a][(j + rnd.randrange(3)) % 3] + chars[b][rnd.randrange(3)]
            lines.append("%s\t%s %s\t%d" % (t, a, b, 50 - 20 * j))
    # a few three-syllable phrases
    for a, b in pairs[24:30]:
        c = rnd.choice(SYLLABLES)
        lines.append("%s\t%s %s %s\t%d" % (chars[a][0] + chars[b][1] + chars[c][2], a, b, c, 10))
    seen, out = set(), []
    for l in lines:
        if l in seen and "\t" in l:
            continue
        seen.add(l)
        out.append(l)
    return "\n".join(out) + "\n"


TABLE_CODES = ["aa", "ab", "ba", "bb", "abc", "abd", "c", "ca"]
_TCHARS = "日月金木水火土竹戈十大中一弓人心手口尸廿山女田卜"


def vtable_dict():
    lines = ["# generated", "---", "name: vtable", 'version: "1"', "sort: original", "use_preset_vocabulary: false",
             "columns:", "  - text", "  - code", "  - weight", "...", ""]
    k = 0
    for code in TABLE_CODES:
        for j in range(3):
            lines.append("%s\t%s\t%d" % (_TCHARS[k % len(_TCHARS)], code, 100 - 30 * j))
            k += 1
    lines.append("%s\t%s\t%d" % ("日月", "aaab", 5))
    return "\n".join(lines) + "\n"


DEFAULT_YAML_EXTRA = """
schema_list:
  - schema: luna_pinyin
  - schema: cangjie5
  - schema: vscript
  - schema: vtable
"""


def default_yaml():
    src = open(os.path.join(vlib.REPO, "data", "minimal", "default.yaml")).read()
    src = re.sub(r"schema_list:\n(  - schema: \w+\n)+", DEFAULT_YAML_EXTRA.lstrip("\n"), src, count=1)
    assert "vscript" in src
    return src


def workspace(flavour):
    """deployed template (shared/ + user/build) with the synthetic schemas."""
    extra = {
        "default.yaml": default_yaml(),
        "vscript.schema.yaml": VSCRIPT_SCHEMA, "vscript.dict.yaml": vscript_dict(),
        "vtable.schema.yaml": VTABLE_SCHEMA, "vtable.dict.yaml": vtable_dict(),
    }
    return vlib.stock_workspace(flavour, extra_shared=extra, name="udbl")


def fresh_user_dir(template, dest):
    """a private user dir: the deployed build/ is shared read-only through a symlink."""
    shutil.rmtree(dest, ignore_errors=True)
    os.makedirs(dest)
    os.symlink(os.path.join(template, "user", "build"), os.path.join(dest, "build"))
    for f in ("installation.yaml", "user.yaml"):
        p = os.path.join(template, "user", f)
        if os.path.exists(p):
            shutil.copy(p, os.path.join(dest, f))
    return dest


def clone_user_dir(src, dest):
    shutil.rmtree(dest, ignore_errors=True)
    shutil.copytree(src, dest, symlinks=True)
    return dest


LIBDIR = {}     # harness executable -> directory holding its private copy of librime.so


def build_harness(flavour):
    """harness executable for the given librime flavour plus a private copy of the
    librime.so it was linked against (the shared build directory is relinked in place
    by any check that sees a new /repo commit - a run must not load a half-written
    library).  Built/copied while holding the build directory's lock, replaced atomically."""
    import hashlib
    b = vlib.librime_build(flavour)
    src = os.path.join(HARNESS, "udbl.cc")
    with vlib.Lock(os.path.join(b, ".verif.lock")):
        so = os.path.realpath(os.path.join(b, "lib", "librime.so"))
        st = os.stat(so)
        key = hashlib.sha256(("%s:%d:%d:%d" % (b, os.stat(src).st_mtime_ns, st.st_mtime_ns, st.st_size)).encode()).hexdigest()[:12]
        d = os.path.join(vlib.WORK, "udbl", "%s-%s" % (flavour, key))
        exe = os.path.join(d, "udbl")
        if not os.path.exists(os.path.join(d, ".ok")):
            tmp = d + ".tmp%d" % os.getpid()
            shutil.rmtree(tmp, ignore_errors=True)
            os.makedirs(os.path.join(tmp, "lib"))
            shutil.copy2(so, os.path.join(tmp, "lib", "librime.so.1"))
            os.symlink("librime.so.1", os.path.join(tmp, "lib", "librime.so"))
            vlib.cxx_build(os.path.join(tmp, "udbl"), [src], flags="-I%s/src" % b,
                           libs="-L%s/lib -lrime -lglog" % tmp, san=(flavour == "asan"))
            open(os.path.join(tmp, ".ok"), "w").write(key)
            try:
                os.rename(tmp, d)
            except OSError:
                shutil.rmtree(tmp, ignore_errors=True)      # another run got there first
            # keep the three newest variants of this flavour
            root = os.path.dirname(d)
            old = sorted((x for x in os.listdir(root) if x.startswith(flavour + "-") and ".tmp" not in x),
                         key=lambda x: os.stat(os.path.join(root, x)).st_mtime)
            for x in old[:-3]:
                shutil.rmtree(os.path.join(root, x), ignore_errors=True)
    LIBDIR[exe] = os.path.join(d, "lib")
    return exe


# ---------------------------------------------------------------------------
# running the harness
# ---------------------------------------------------------------------------

def run_script(exe, template, user_dir, script_lines, log_path=None, crash_at=None, timeout=120, preload=None, extra_env=None):
    """run one typing history in a child process; returns (rc, stdout, stderr)."""
    sp = os.path.join(os.path.dirname(user_dir), os.path.basename(user_dir) + ".script")
    with open(sp, "w") as f:
        f.write("\n".join(script_lines) + "\n")
    env = {"ASAN_OPTIONS": "detect_leaks=0:abort_on_error=0", "UBSAN_OPTIONS": "print_stacktrace=1"}
    if log_path:
        env["VERIF_DBLOG"] = log_path
    if crash_at is not None:
        env["VERIF_CRASH_AT"] = str(crash_at)
    if preload:
        env["LD_PRELOAD"] = preload
    if extra_env:
        env.update(extra_env)
    e = dict(os.environ)
    e.pop("VERIF_DBLOG", None)
    e.pop("VERIF_CRASH_AT", None)
    e.update(env)
    if exe in LIBDIR:
        e["LD_LIBRARY_PATH"] = LIBDIR[exe] + (":" + e["LD_LIBRARY_PATH"] if e.get("LD_LIBRARY_PATH") else "")
    import subprocess
    try:
        p = subprocess.run([exe, "run", os.path.join(template, "shared"), user_dir, sp], env=e,
                           stdout=subprocess.PIPE, stderr=subprocess.PIPE, timeout=timeout, text=True, errors="replace")
        return p.returncode, p.stdout, p.stderr
    except subprocess.TimeoutExpired:
        return 124, "", "timeout"


def run_dump(exe, template, user_dir, names, timeout=120):
    """fresh process: UserDictionary::Load (+ recovery) and raw scan of the named dbs.
    returns {name: {"load": str, "status": str, "recs": {keyhex: canonical value}}}"""
    import subprocess
    e = dict(os.environ)
    for k in ("VERIF_DBLOG", "VERIF_CRASH_AT", "LD_PRELOAD"):
        e.pop(k, None)
    e["ASAN_OPTIONS"] = "detect_leaks=0"
    if exe in LIBDIR:
        e["LD_LIBRARY_PATH"] = LIBDIR[exe] + (":" + e["LD_LIBRARY_PATH"] if e.get("LD_LIBRARY_PATH") else "")
    try:
        p = subprocess.run([exe, "dump", os.path.join(template, "shared"), user_dir] + list(names), env=e,
                           stdout=subprocess.PIPE, stderr=subprocess.PIPE, timeout=timeout, text=True, errors="replace")
    except subprocess.TimeoutExpired:
        return None, "timeout"
    out = {}
    for l in p.stdout.split("\n"):
        f = l.split()
        if not f:
            continue
        if f[0] == "load":
            out.setdefault(f[1], {"recs": {}})["load"] = " ".join(f[2:])
        elif f[0] == "dump":
            out.setdefault(f[1], {"recs": {}})["status"] = f[2]
        elif f[0] == "rec":
            out.setdefault(f[1], {"recs": {}})["recs"][f[2]] = canon_value(f[2], f[3])
    if p.returncode != 0:
        return out, "rc=%d %s" % (p.returncode, p.stderr[-2000:])
    return out, None


# ---------------------------------------------------------------------------
# hook log -> per-db operation logs and event histories
# ---------------------------------------------------------------------------

TICK_KEY = "012f7469636b"


def unhex(h):
    return b"" if h == "-" else bytes.fromhex(h)


def canon_value(keyhex, valhex):
    """(commits, tick) of an entry value, n<number> for /tick, * for other metadata"""
    if keyhex.startswith("01") or keyhex == "-":
        if keyhex == TICK_KEY:
            try:
                return "n%d" % int(unhex(valhex).decode("ascii"))
            except ValueError:
                return "?" + valhex
        return "*"
    s = unhex(valhex).decode("utf-8", "replace")
    c = t = None
    for kv in s.split(" "):
        if kv.startswith("c="):
            c = kv[2:]
        elif kv.startswith("t="):
            t = kv[2:]
    try:
        return "%d,%d" % (int(c), int(t))
    except (TypeError, ValueError):
        return "?" + valhex


def dentry_tokens(fields):
    """'<hex text> <hex custom> <syl,syl|->' -> model tokens"""
    text, custom, code = fields
    syl = [] if code == "-" else code.split(",")
    return [text, custom, str(len(syl))] + syl


class Order(list):
    """db name of each logged operation in global order, plus the script command
    in progress at the end of the log and the command of the latest commit event"""
    last_cmd = -1
    last_commit_cmd = -1

    def __init__(self, *a):
        super().__init__(*a)
        self.per_db = {}


class DbHistory:
    def __init__(self, name):
        self.name = name
        self.ops = []        # canonical op strings, in order
        self.flags = []      # (loaded, in_txn) the hook saw at each op
        self.events = []     # model tokens per event
        self.event_cmd = []  # script command in progress when the event was logged
        self.event_saves = []  # separately memorised phrases of a commit event (0 for other events)
        self.op_cmd = []     # script command in progress at each call
        self.raw_events = []
        self.unmodelled = []
        self.ids = {}
        self.next_id = 0

    def model_line(self):
        return "H " + " ".join(" ".join(e) for e in self.events)


def parse_log(path):
    """returns (order, dbs): order = db name of each logged op (global order);
    dbs = {name: DbHistory}.  Only dbs that logged operations (LevelDb) get events."""
    lines = []
    try:
        with open(path, errors="replace") as f:
            lines = [l.rstrip("\n") for l in f if l.strip()]
    except FileNotFoundError:
        pass
    names = {l.split("\t")[2] for l in lines if l.startswith("D\t")}
    dbs = {n: DbHistory(n) for n in names}
    order = Order()
    for l in lines:
        try:
            _parse_line(l, dbs, order)
        except Exception:
            # a log line that does not have the expected shape is a difference to report
            for h in dbs.values():
                h.unmodelled.append("unparseable: " + l[:300])
                break
    return order, dbs


def _parse_line(l, dbs, order):
    if True:
        f = l.split("\t")
        if f[0] == "M":
            order.last_cmd = int(f[1])
            return
        if f[0] == "E" and len(f) > 2 and f[2] == "commit":
            order.last_commit_cmd = order.last_cmd
            if len(f) > 4:
                # per dictionary: the command of the latest commit event, the one before it, and whether the transaction
                # of that earlier commit was still unflushed (no LevelDb `commit` call on this db in between) when the
                # latest commit began
                info = order.per_db.setdefault(f[4], {"last": -1, "prev": -1, "prev_unflushed": False, "flushes": 0})
                if info["last"] != order.last_cmd:
                    info["prev"], info["prev_unflushed"] = info["last"], (info["last"] >= 0 and info["flushes"] == 0)
                    info["last"] = order.last_cmd
                info["flushes"] = 0
        if f[0] == "D":
            op, name, k, v, ld, tx = f[1:7]
            h = dbs[name]
            if op == "update":
                s = "U:%s:%s" % (k, canon_value(k, v))
            elif op == "erase":
                s = "E:%s" % k
            else:
                s = op
            if op == "commit" and name in order.per_db:
                order.per_db[name]["flushes"] += 1
            h.ops.append(s)
            h.op_cmd.append(order.last_cmd)
            h.flags.append((ld, tx))
            order.append(name)
        elif f[0] == "E":
            depth, kind, ptr, name = int(f[1]), f[2], f[3], f[4]
            if name not in dbs or depth != 0:
                return
            h = dbs[name]
            if kind == "load":
                h.ids[ptr] = h.next_id
                h.next_id += 1
            if ptr not in h.ids:
                h.unmodelled.append(l)
                return
            u = str(h.ids[ptr])
            rest = f[5:]
            if kind == "load":
                ev = ["L", u]
            elif kind == "fetchtick":
                ev = ["T", u]
            elif kind == "finish":
                ev = ["F", u]
            elif kind == "destroy":
                ev = ["D", u]
            elif kind == "key":
                ev = ["K", u, rest[0], rest[1], rest[2]]
            elif kind == "delete":
                ev = ["X", u] + dentry_tokens(rest[0].split(" "))
            elif kind == "commit":
                tk = "script" if "ScriptTranslator" in rest[0] else "table" if "TableTranslator" in rest[0] else None
                if tk is None:
                    h.unmodelled.append(l)
                    return
                segs = rest[2:]
                ev = ["C", u, tk, rest[1], str(len(segs))]
                saves, pending = 0, False
                for sg in segs:
                    g = sg.split(" ")
                    assert g[0] == "S"
                    if g[1] == "1":
                        pending = True
                    if (g[1] == "0" or g[2] == "1") and pending:
                        saves, pending = saves + 1, False
                    if g[1] == "0":
                        ev += ["0", g[2], "-", "-", "0", "0"]
                        continue
                    parts = " ".join(g[3:]).split(" | ")
                    ev += ["1", g[2]] + dentry_tokens(parts[0].split(" ")) + [str(len(parts) - 1)]
                    for pe in parts[1:]:
                        ev += dentry_tokens(pe.split(" "))
            else:
                h.unmodelled.append(l)
                return
            h.events.append(ev)
            h.event_saves.append(saves if kind == "commit" else 0)
            h.event_cmd.append(order.last_cmd)
            h.raw_events.append(l)


def parse_model_output(text):
    """split the driver's output into per-history dicts"""
    res, cur = [], None
    for l in text.split("\n"):
        if l.startswith("OPS"):
            cur = {"ops": l.split()[1:], "S": {}, "P": {}, "chk": None}
        elif cur is None:
            continue
        elif l.startswith("UNITS"):
            cur["units"] = int(l.split()[1])
        elif l.startswith("S "):
            f = l.split(" ")
            cur["S"][int(f[1])] = parse_dict(f[2:])
        elif l.startswith("P "):
            f = l.split(" ")
            cur["P"][int(f[1])] = (int(f[2]), parse_dict(f[3:]))
        elif l.startswith("CHK"):
            cur["chk"] = l.split()[1] == "1"
        elif l.startswith("END"):
            res.append(cur)
            cur = None
    return res


def parse_dict(fields):
    d = {}
    for x in fields:
        if x == "-" or not x:
            continue
        k, v = x.split("=", 1)
        d[k] = v
    return d


# ---------------------------------------------------------------------------
# history generators (one PRNG, seeded by the check)
# ---------------------------------------------------------------------------

LUNA_WORDS = ["ni", "hao", "nihao", "zhongguo", "women", "shi", "de", "zhong", "guo", "wo", "men", "shijie"]


def gen_input(rnd, schema):
    if schema == "vscript":
        return "".join(rnd.choice(SYLLABLES) for _ in range(rnd.choice([1, 1, 2, 2, 2, 3])))
    if schema == "vtable":
        return "".join(rnd.choice(TABLE_CODES[:4] + ["abc", "c"]) for _ in range(rnd.choice([1, 1, 1, 2])))
    return "".join(rnd.choice(LUNA_WORDS) for _ in range(rnd.choice([1, 1, 2])))


def gen_history(rnd, schema, steps, two_sessions=False, lookups=False):
    """script lines of one typing history; aims at: whole/partial selection, several
    commit entries in one commit (list punctuation inside the input), auto-commit
    punctuation, BackSpace within/after the undo window, deletion, re-typing,
    session restart, a second session on the same dictionary."""
    L = ["S 1 %s" % schema]
    live = [1]
    if two_sessions:
        L.append("S 2 %s" % schema)
        live.append(2)
    recent = []
    stats = {}

    def note(k):
        stats[k] = stats.get(k, 0) + 1
    for _ in range(steps):
        sid = rnd.choice(live)
        r = rnd.random()
        inp = rnd.choice(recent) if recent and rnd.random() < 0.45 else gen_input(rnd, schema)
        recent = (recent + [inp])[-4:]
        if lookups:
            L.append("L %d %s" % (sid, inp))
        if r < 0.26:
            L += ["K %d %s" % (sid, inp), "F %d" % sid]
            note("commit-top")
        elif r < 0.46:
            L += ["K %d %s" % (sid, inp), "P %d %d" % (sid, rnd.randrange(12)), "F %d" % sid]
            note("commit-selected")
        elif r < 0.60:
            # several separately memorised phrases in ONE commit: list punctuation (stays in
            # the composition) between the phrases
            sep = rnd.choice(["/", "/", "<"]) if schema == "luna_pinyin" else "/"
            parts = [inp] + [gen_input(rnd, schema) for _ in range(rnd.choice([1, 1, 2]))]
            L += ["K %d %s" % (sid, sep.join(parts)), "F %d" % sid]
            note("commit-%d-entries" % len(parts))
        elif r < 0.62:
            L += ["K %d %s," % (sid, inp)]
            note("commit-by-punct")
        elif r < 0.66:
            # a commit of its own that memorises nothing (punctuation on an empty composition) right behind a phrase commit:
            # the phrase commit is then no longer the final one and has to be durable
            L += ["K %d %s" % (sid, inp), "F %d" % sid, "K %d %s" % (sid, rnd.choice([",", "."]))]
            note("commit-then-punct-commit")
        elif r < 0.78:
            L += ["K %d %s" % (sid, inp), "F %d" % sid]
            if rnd.random() < 0.4:
                L.append("T %d" % rnd.choice([1, 3, 4, 10]))
                note("backspace-after-wait")
            else:
                note("backspace-at-once")
            key = rnd.choice(["{BackSpace}"] * 7 + ["{space}", "{Return}", "{Control+x}", "{Shift+BackSpace}"])
            if key != "{BackSpace}":
                note("other-unhandled-key")
            L.append("K %d %s" % (sid, key))
        elif r < 0.90:
            L += ["K %d %s" % (sid, inp), "X %d %d" % (sid, rnd.randrange(4)), "R %d" % sid]
            note("delete")
        elif r < 0.95:
            L += ["K %d %s" % (sid, inp), "F %d" % sid, "D %d" % sid, "S %d %s" % (sid, schema)]
            note("restart-session")
        else:
            L += ["K %d %s" % (sid, inp), "C %d" % sid]
            note("commit-composition")
        if lookups:
            L.append("L %d %s" % (sid, inp))
    return L, stats


def build_killpoint():
    src = os.path.join(HARNESS, "killpoint.c")
    out = os.path.join(vlib.WORK, "bin", "udbl-killpoint.so")
    os.makedirs(os.path.dirname(out), exist_ok=True)
    with vlib.Lock(out + ".lock"):
        if os.path.exists(out) and os.stat(out).st_mtime_ns > os.stat(src).st_mtime_ns:
            return out
        tmp = out + ".tmp%d" % os.getpid()
        vlib.sh("gcc -shared -fPIC -O1 -o %s %s -ldl" % (tmp, src), check=True, timeout=120)
        os.replace(tmp, out)
    return out


# ---------------------------------------------------------------------------
# C10: structured histories (probe the candidate list before and after every step)
# ---------------------------------------------------------------------------

def input_pool(rnd, schema):
    if schema == "vscript":
        pool = set()
        while len(pool) < 9:
            pool.add("".join(rnd.choice(SYLLABLES[:6]) for _ in range(rnd.choice([1, 2, 2, 2, 3]))))
        s2 = rnd.choice(SYLLABLES[:6])
        pool.add(s2 + s2)          # the same entry twice in one commit
        return sorted(pool) + ABBR_INPUTS["vscript"][:4]
    if schema == "vtable":
        return ["aa", "ab", "ba", "bb", "abc", "c", "aaab", "aabb", "abba", "abcaa", "aaaa", "abab"]
    # shenmeshijian / shenmeshihou, zhonghuarenmin...: phrases of four and more syllables that share their first three syllables
    return ["ni", "hao", "nihao", "zhongguo", "women", "shijie", "wo", "de", "nihaoshijie", "womende", "nini",
            "shenmeshijian", "shenmeshihou"] + ABBR_INPUTS["luna_pinyin"][:4]


# (input of five or more syllables, its first four syllables): a phrase learned for the long input is offered as a
# word completion (candidate type "completion", user_dictionary.cc: predict_word_from_depth = 4) when the prefix is typed
DELCOMP = {
    "vscript": [("badagubodu", "badagubo"), ("gudubabodaga", "gudubabo"), ("dadabogugu", "dadabogu")],
    "luna_pinyin": [("woaibeijingtiananmen", "woaibeijing"), ("nihaoshijiedajiahao", "nihaoshijie")],
}


def gen_c10_history(rnd, schema, steps, pool):
    """script lines + plan [(kind, input, first line index, last line index)]"""
    L = ["S 1 %s" % schema]
    plan = []
    recent = []
    for _ in range(steps):
        x = rnd.choice(recent) if recent and rnd.random() < 0.55 else rnd.choice(pool)
        recent = (recent + [x])[-3:]
        r = rnd.random()
        a = len(L)
        if schema in ABBR_INPUTS and rnd.random() < 0.16:
            # abbreviated input: assemble a phrase from partial selections, commit, optionally
            # restart the session, retype the SAME abbreviated input
            x = rnd.choice(ABBR_INPUTS[schema])
            kind = "abbr"
            L += ["L 1 %s" % x, "K 1 %s" % x, "Q 1 %d" % rnd.choice([0, 0, 1, 2, 3]), "F 1", "L 1 %s" % x]
            if rnd.random() < 0.5:
                L += ["D 1", "S 1 %s" % schema, "L 1 %s" % x]
        elif schema in DELCOMP and rnd.random() < 0.10:
            # learn a long phrase (assembled from partial selections), type a prefix of four syllables, delete the phrase
            # from THAT list (it is offered there as a word completion), then list both inputs again
            x, prefix = rnd.choice(DELCOMP[schema])
            kind = "delcomp"
            L += ["L 1 %s" % x, "K 1 %s" % x, "Q 1 %d" % rnd.choice([0, 1, 2, 3]), "F 1", "L 1 %s" % x,
                  "L 1 %s" % prefix, "K 1 %s" % prefix, "Y 1", "R 1", "L 1 %s" % prefix, "L 1 %s" % x]
        elif schema != "vtable" and rnd.random() < 0.08:
            # round 5: assemble a phrase from a partial selection, then delete the element that was selected first from the list of
            # ITS OWN code (its record was only touched - commit count 0 - by the assembled commit)
            kind = "delelem"
            L += ["L 1 %s" % x, "K 1 %s" % x, "Q 1 %d" % rnd.choice([0, 1, 1, 2, 3]), "F 1", "V 1", "L 1 %s" % x]
        elif r < 0.42:
            kind = "select"
            L += ["L 1 %s" % x, "K 1 %s" % x, "P 1 %d" % rnd.choice([0, 0, 1, 1, 2, 3, 4, 5, 7]), "F 1", "L 1 %s" % x]
        elif r < 0.56:
            kind = "top"
            L += ["L 1 %s" % x, "K 1 %s" % x, "F 1", "L 1 %s" % x]
        elif r < 0.70:
            # learn something the static dictionary is unlikely to have (a non-top selection,
            # usually partial), then delete the top candidate - now that learned phrase
            pr = rnd.choice([1, 2, 3, 4, 5])
            kind = "select"
            L += ["L 1 %s" % x, "K 1 %s" % x, "P 1 %d" % pr, "F 1", "L 1 %s" % x]
            plan.append((kind, x, a, len(L) - 1))
            a = len(L)
            kind = "delete"
            L += ["L 1 %s" % x, "K 1 %s" % x, "X 1 0", "R 1", "L 1 %s" % x]
            if rnd.random() < 0.5:
                # and learn it again the same way: it must come back
                plan.append((kind, x, a, len(L) - 1))
                a = len(L)
                kind = "select"
                L += ["L 1 %s" % x, "K 1 %s" % x, "P 1 %d" % pr, "F 1", "L 1 %s" % x]
        elif r < 0.82:
            kind = "delete"
            L += ["L 1 %s" % x, "K 1 %s" % x, "X 1 %d" % rnd.choice([0, 0, 0, 1, 1, 2, 3]), "R 1", "L 1 %s" % x]
        elif r < 0.86:
            kind = "undo"
            L += ["L 1 %s" % x, "K 1 %s" % x, "F 1", "K 1 {BackSpace}", "L 1 %s" % x]
        elif r < 0.90:
            # a commit that teaches nothing (a punctuation mark) between the commit and the BackSpace: the undo window
            # belongs to the later commit, the phrase stays learned
            kind = "punctbs"
            sel = "Q 1 %d" % rnd.choice([0, 1, 2, 3]) if rnd.random() < 0.65 else "P 1 %d" % rnd.choice([0, 1, 2, 3, 5])
            L += ["L 1 %s" % x, "K 1 %s" % x, sel, "F 1", "K 1 %s" % rnd.choice([",", "."]), "K 1 {BackSpace}", "L 1 %s" % x]
        else:
            kind = "restart"
            L += ["D 1", "Z %s" % ("vscript" if schema == "vscript" else "vtable" if schema == "vtable" else "luna_pinyin"),
                  "S 1 %s" % schema]
        plan.append((kind, x, a, len(L) - 1))
    return L, plan


def group_output(out):
    """harness stdout -> {command index: [lines]}"""
    g, cur = {}, None
    for l in out.split("\n"):
        if l.startswith("@ "):
            cur = int(l[2:])
            g[cur] = []
        elif cur is not None and l.strip():
            g[cur].append(l)
    return g
